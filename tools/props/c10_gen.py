"""C10: seeded generator of IDL models, a renderer with lexical styles, and the canonical form.

A *model* is a plain Python structure (dicts / lists / bytes).  `canon(model)` is the parse
tree the property demands (the declared things, Thrift's implicit enum numbering, union fields
and throws optional), in the nested-list form that harness/cmd/vh_c10 dumps and
Judge/JParser.v rebuilds.  `Renderer(rng, hazard).render(model)` writes the model as IDL text,
drawing every lexical choice (whitespace, comment kinds, separators, quote style, number
spelling) from `rng`.

Base styles use only lexical forms the PEG grammar is expected to accept at each position
(`_` positions: blanks and single-line /* */ comments; `__` positions: also newlines and line
comments).  A *hazard* is one extra, Thrift-valid lexical choice that the grammar still
mishandles (HAZARDS; a failure carries the hazard's name so that it can be attributed exactly to
its known finding).  REPAIRED lists the constructs the pinned grammar mishandled and the repaired
one accepts (keyword-prefixed names, escapes in literals, ';' in constant maps, a comment after
`prefix`): they are now ordinary choices of the generator and the renderer, and in addition each
gets targeted cases whose failure is an ordinary violation.
"""

BASE_TYPES = [b"bool", b"byte", b"i16", b"i32", b"i64", b"double", b"string", b"binary"]
TYPE_POS_BAD_PREFIX = BASE_TYPES + [b"required", b"optional", b"oneway", b"void"]
CONST_REF_BAD_PREFIX = [b"true", b"false"]
KEYWORDS = {b"include", b"namespace", b"const", b"enum", b"typedef", b"struct", b"exception", b"union",
            b"service", b"scope", b"extends", b"throws", b"oneway", b"void", b"required", b"optional",
            b"map", b"set", b"list", b"cpp_type", b"prefix", b"true", b"false"} | set(BASE_TYPES)

HAZARDS = ["newline_inside_declaration", "enum_ref_constant"]
REPAIRED = ["basetype_prefixed_type", "modifier_prefixed_type", "oneway_prefixed_return_type",
            "void_prefixed_return_type", "bool_prefixed_const_ref",
            "comment_after_prefix_keyword", "const_map_semicolon_separator",
            "literal_trailing_backslash", "escaped_other_quote_in_literal"]

LETTERS = b"abcdefghijklmnopqrstuvwxyzABCDEFGHIJKLMNOPQRSTUVWXYZ"
DIGITS = b"0123456789"
WORD = LETTERS + DIGITS + b"_."


def starts_with_any(name, prefixes):
    return any(name.startswith(p) for p in prefixes)


class Gen:
    """Random well-formed models."""

    def __init__(self, rng, hazard=None, size=1.0):
        self.rng = rng
        self.hazard = hazard
        self.size = size
        self.used = set()

    # ---- names -------------------------------------------------------------------------------
    def ident(self, avoid=(), kw_ok=True, maxlen=10):
        rng = self.rng
        for _ in range(200):
            r = rng.random()
            if r < 0.18 and kw_ok:
                # a name that begins with a keyword (harmless at most positions)
                kw = rng.choice(sorted(KEYWORDS))
                name = kw + rng.choice([b"x", b"List", b"_data", b"2", b"Value", b"_", b"s"])
            else:
                first = rng.choice(LETTERS + b"_" if r < 0.3 else LETTERS)
                n = rng.randrange(0, maxlen)
                body = bytes(rng.choice(LETTERS + DIGITS + b"_" if rng.random() < 0.8 else LETTERS) for _ in range(n))
                name = bytes([first]) + body
                if name == b"_" * len(name) and rng.random() < 0.7:
                    name += b"a"
            if name in KEYWORDS or name in self.used or starts_with_any(name, avoid):
                continue
            # validate() indexes services/scopes/methods/operations by lower-cased first letter
            low = name[:1].lower() + name[1:]
            if low in self.used or (name[:1].upper() + name[1:]) in self.used:
                continue
            self.used.add(name)
            return name
        raise RuntimeError("cannot find a fresh identifier")

    def type_name(self):
        # names that begin with a type-position keyword (i32x, optionalThing, onewayTicket, voidable) are
        # ordinary type names since the repair of C10-F8a..d: favour them
        if self.rng.random() < 0.15:
            for _ in range(20):
                name = self.rng.choice(TYPE_POS_BAD_PREFIX) + self.rng.choice([b"x", b"List", b"_data", b"2", b"Value", b"_", b"able"])
                low = name[:1].lower() + name[1:]
                if name not in KEYWORDS and name not in self.used and low not in self.used \
                        and (name[:1].upper() + name[1:]) not in self.used:
                    self.used.add(name)
                    return name
        return self.ident()

    def const_name(self):
        # likewise names that begin with true / false (C10-F8e)
        if self.rng.random() < 0.15:
            for _ in range(20):
                name = self.rng.choice(CONST_REF_BAD_PREFIX) + self.rng.choice([b"Value", b"_", b"y", b"1", b"Flag"])
                low = name[:1].lower() + name[1:]
                if name not in KEYWORDS and name not in self.used and low not in self.used \
                        and (name[:1].upper() + name[1:]) not in self.used:
                    self.used.add(name)
                    return name
        return self.ident()

    # ---- pieces ------------------------------------------------------------------------------
    def text(self, maxlen=12, rich=True):
        rng = self.rng
        n = rng.randrange(0, maxlen)
        out = bytearray()
        for _ in range(n):
            r = rng.random()
            if r < 0.75 or not rich:
                out.append(rng.choice(b"abcdefghijklmnopqrstuvwxyz ABCXYZ0123456789_-.:/,;{}()[]<>=#*@!?"))
            elif r < 0.82:
                out += rng.choice([b"'", b'"'])
            elif r < 0.87:
                out += rng.choice([b"\n", b"\t", b"\r", b"\\"])
            elif r < 0.91:
                # VALUES in which a backslash stands next to a quote, another backslash or a letter that names an
                # escape: their spellings (\\' , \\\\ , \\n ...) are where escape handling goes wrong
                out += rng.choice([b"\\'", b'\\"', b"\\\\", b"\\n", b"\\t", b"'\\", b'"\\', b"\\'\\"])
            else:
                out += chr(rng.choice([0xe9, 0x3b1, 0x20ac, 0x1f600, 0x4e2d, 0xa0, 0x2028])).encode("utf8")
        if rich and rng.random() < 0.05:
            out += b"\\"       # a value that ends in a backslash (C10-F19, repaired)
        return bytes(out)

    def anns(self, p=0.25):
        rng = self.rng
        if rng.random() > p:
            return []
        out = []
        for _ in range(rng.randrange(0, 4)):
            name = self.ident() if rng.random() < 0.5 else rng.choice([b"deprecated", b"vendor", b"go.tag", b"cpp.type", b"a.b.c"])
            self.used.discard(name)
            out.append({"name": name, "value": self.text() if rng.random() < 0.7 else None})
        return out

    def doc(self, p=0.2):
        rng = self.rng
        if rng.random() > p:
            return None
        lines = []
        for _ in range(rng.randrange(1, 4)):
            w = [bytes(rng.choice(LETTERS + DIGITS + b".,;:!?()[]{}<>#@/'\"-+=") for _ in range(rng.randrange(1, 8)))
                 for _ in range(rng.randrange(0, 4))]
            line = b" ".join(w)
            if line.startswith(b"*") or b"*/" in line:
                line = b"x" + line.replace(b"*/", b"* /")
            lines.append(line)
        if lines and lines[0] == b"" and len(lines) == 1:
            lines = [b"doc"]
        # TrimSpace of the whole comment: first and last line must not be empty
        if lines[0] == b"":
            lines[0] = b"first"
        if lines[-1] == b"":
            lines[-1] = b"last"
        return lines

    def ftype(self, env, depth=0, annotated=True):
        rng = self.rng
        r = rng.random()
        tanns = self.anns(0.08) if annotated else []
        if r < 0.45 or (depth >= 3 and r < 0.8):
            return {"name": rng.choice(BASE_TYPES), "key": None, "val": None, "anns": tanns}
        if r < 0.65 and depth < 3:
            k = rng.choice([b"list", b"set", b"map"])
            t = {"name": k, "key": None, "val": self.ftype(env, depth + 1), "anns": tanns,
                 "cpp": (self.text(6, rich=False) if rng.random() < 0.05 and k != b"list" else None)}
            if k == b"map":
                t["key"] = self.ftype(env, depth + 1)
            return t
        if env["types"]:
            return {"name": rng.choice(env["types"]), "key": None, "val": None, "anns": []}
        return {"name": rng.choice(BASE_TYPES), "key": None, "val": None, "anns": tanns}

    def int_value(self):
        rng = self.rng
        r = rng.random()
        if r < 0.6:
            return rng.randrange(-20, 200)
        if r < 0.8:
            return rng.choice([0, 1, -1, 2**31 - 1, -2**31, 2**31, 2**53, 2**63 - 1, -2**63, 9007199254740993])
        return rng.randrange(-2**63, 2**63)

    def double_value(self):
        """(mantissa digits before dot, digits after dot, exponent or None, sign) -> kept as decimal text parts"""
        rng = self.rng
        r = rng.random()
        ip = b"" if r < 0.15 else bytes(rng.choice(DIGITS) for _ in range(rng.randrange(1, 6 if r < 0.9 else 25)))
        fp = bytes(rng.choice(DIGITS) for _ in range(rng.randrange(0 if ip else 1, 6 if r < 0.9 else 30)))
        ex = None
        if rng.random() < 0.4:
            ex = rng.choice([0, 1, -1, 5, -7, 22, 23, -22, 300, -300, 308, -308, -320, -324, -330]) \
                if rng.random() < 0.7 else rng.randrange(-340, 309)
        sign = rng.choice([b"", b"", b"-", b"+"])
        d = {"ip": ip, "fp": fp, "exp": ex, "sign": sign}
        if float(double_text(d).decode()) in (float("inf"), float("-inf")):
            d["exp"] = None if len(ip) < 300 else -10      # out of range is a (correct) parse error, not a value
        return d

    def const_value(self, env, depth=0):
        rng = self.rng
        r = rng.random()
        if r < 0.25:
            return ("int", self.int_value())
        if r < 0.4:
            return ("str", self.text())
        if r < 0.5:
            return ("bool", rng.random() < 0.5)
        if r < 0.62:
            return ("double", self.double_value())
        if r < 0.72 and env["consts"]:
            return ("ident", rng.choice(env["consts"]))
        if r < 0.86 and depth < 2:
            return ("list", [self.const_value(env, depth + 1) for _ in range(rng.randrange(0, 4))])
        if depth < 2:
            return ("map", [(self.const_value(env, depth + 1), self.const_value(env, depth + 1))
                            for _ in range(rng.randrange(0, 4))])
        return ("int", self.int_value())

    def fields(self, env, maxn=6, defaults=True, p_doc=0.15):
        rng = self.rng
        n = rng.randrange(0, maxn)
        ids = rng.sample(range(-3, 40), n)
        if rng.random() < 0.7:
            ids.sort()
        out = []
        names = set()
        for i in ids:
            name = self.ident()
            self.used.discard(name)
            if name in names:
                continue
            names.add(name)
            out.append({"doc": self.doc(p_doc), "id": i, "name": name,
                        "mod": rng.choice([0, 1, 2, 2]), "type": self.ftype(env),
                        "default": self.const_value(env) if defaults and rng.random() < 0.25 else None,
                        "anns": self.anns(0.12), "id_plus": rng.random() < 0.03})
        return out

    # ---- declarations ------------------------------------------------------------------------
    def model(self, includes=(), n_decls=None, extra_kinds=()):
        """includes: list of (include value bytes, env-of-that-file) this file may refer to"""
        rng = self.rng
        env = {"types": [], "consts": [], "exceptions": [], "services": [], "enums": []}
        decls = []
        for value, ienv in includes:
            decls.append(("include", {"value": value, "anns": self.anns(0.1)}))
            base = value.rsplit(b"/", 1)[-1]
            base = base[:base.rindex(b".")] if b"." in base[1:] else base
            for k in ("types", "consts", "exceptions", "services"):
                env[k] += [base + b"." + n for n in ienv["local_" + k]]
        local = {"local_types": [], "local_consts": [], "local_exceptions": [], "local_services": []}
        for _ in range(rng.randrange(0, 3)):
            sc = rng.choice([b"*", b"py", b"java", b"go", b"dart", b"cpp", b"py.asyncio", b"js", b"c-sharp"])
            parts = [self.ident(kw_ok=False, maxlen=6) for _ in range(rng.randrange(1, 4))]
            for p in parts:
                self.used.discard(p)
            a = self.anns(0.1)
            if sc == b"*":
                a = [x for x in a if x["name"] != b"vendor"]
            decls.append(("namespace", {"scope": sc, "value": b".".join(parts), "anns": a}))
        # pre-declare type names so that declarations can refer to each other in any order
        n = n_decls if n_decls is not None else max(1, int(rng.randrange(1, 9) * self.size))
        kinds = [rng.choice(["typedef", "const", "enum", "struct", "struct", "exception", "union", "service", "scope"])
                 for _ in range(n)] + list(extra_kinds)
        names = []
        for k in kinds:
            if k in ("typedef", "enum", "struct", "exception", "union"):
                nm = self.type_name()
                env["types"].append(nm)
                local["local_types"].append(nm)
                if k == "exception":
                    env["exceptions"].append(nm)
                    local["local_exceptions"].append(nm)
            elif k == "const":
                nm = self.const_name()
            else:
                nm = self.ident()
            names.append(nm)
        # constants may refer to constants declared anywhere in the file
        for k, nm in zip(kinds, names):
            if k == "const":
                env["consts"].append(nm)
                local["local_consts"].append(nm)
        body = []
        for k, nm in zip(kinds, names):
            d = {"doc": self.doc(0.25), "name": nm, "anns": self.anns(0.15)}
            if k == "typedef":
                others = dict(env, types=[t for t in env["types"] if t != nm])
                d["type"] = self.ftype(others)
            elif k == "const":
                d["type"] = self.ftype(env)
                others = dict(env, consts=[c for c in env["consts"] if c != nm])
                d["value"] = self.const_value(others)
            elif k == "enum":
                vals = []
                nxt = 0
                for _ in range(rng.randrange(0, 6)):
                    vn = self.ident()
                    self.used.discard(vn)
                    explicit = None
                    r = rng.random()
                    if r < 0.3:
                        explicit = nxt + rng.randrange(0, 5)          # monotone explicit value
                    elif r < 0.55:
                        # boundary values: -1 in particular is a value a parser may be tempted to use as "unset"
                        explicit = rng.choice([rng.randrange(0, 30), rng.randrange(-5, 0), 2**31 - 1, 0, -1, -1, -2, 1,
                                               -2**31, nxt - 1, nxt - 2])
                    v = explicit if explicit is not None else nxt
                    nxt = v + 1
                    vals.append({"doc": self.doc(0.1), "name": vn, "explicit": explicit, "anns": self.anns(0.1)})
                d["values"] = vals
                env["enums"].append((nm, [v["name"] for v in vals]))
            elif k in ("struct", "exception", "union"):
                d["fields"] = self.fields(env)
            elif k == "service":
                d["extends"] = rng.choice(env["services"]) if env["services"] and rng.random() < 0.4 else None
                ms = []
                for _ in range(rng.randrange(0, 5)):
                    mn = self.ident()
                    oneway = rng.random() < 0.2
                    m = {"doc": self.doc(0.15), "name": mn, "oneway": oneway,
                         "ret": None if oneway or rng.random() < 0.4 else self.ftype(env),
                         "args": self.fields(env, 4, p_doc=0.05),
                         "throws": None, "anns": self.anns(0.1)}
                    if not oneway and rng.random() < 0.35 and env["exceptions"]:
                        # validation rejects a throws clause whose type is not an exception
                        pool = env["exceptions"]
                        ths = []
                        for j in range(rng.randrange(0, 3)):
                            fn = self.ident()
                            self.used.discard(fn)
                            ths.append({"doc": None, "id": j + 1, "name": fn, "mod": rng.choice([0, 1, 2]),
                                        "type": {"name": rng.choice(pool) if pool else b"string", "key": None,
                                                 "val": None, "anns": []},
                                        "default": None, "anns": [], "id_plus": False})
                        m["throws"] = ths
                    ms.append(m)
                d["methods"] = ms
                env["services"].append(nm)
                local["local_services"].append(nm)
            elif k == "scope":
                toks = []
                vars_ = []
                if rng.random() < 0.6:
                    for _ in range(rng.randrange(1, 5)):
                        if rng.random() < 0.4:
                            v = self.ident(kw_ok=False, maxlen=6)
                            self.used.discard(v)
                            if len(v) < 2 or not (v[:1].isalpha() and v[1:2].isalnum()):
                                v = b"v" + v.replace(b"_", b"a") + b"1"
                            if rng.random() < 0.35:
                                # underscores inside a variable name (user_id, tenant_2_zone): accepted by the parser's check
                                v = v[:2] + rng.choice([b"_", b"_id", b"_2_", b"__x"]) + v[2:]
                            toks.append(b"{" + v + b"}")
                            vars_.append(v)
                        else:
                            toks.append(bytes(rng.choice(LETTERS + DIGITS + b"_-*>") for _ in range(rng.randrange(1, 6))))
                d["prefix"] = b".".join(toks) if toks else None
                d["vars"] = vars_
                ops = []
                for _ in range(rng.randrange(0, 4)):
                    on = self.ident()
                    t = self.ftype(env)
                    oa = self.anns(0.12)
                    if t["name"] in BASE_TYPES + [b"list", b"set", b"map"] and not t["anns"]:
                        oa = []          # "Ev: i32 (a)" annotates the type, by the grammar
                    ops.append({"doc": self.doc(0.1), "name": on, "type": t, "anns": oa})
                d["ops"] = ops
            body.append((k, d))
        rng.shuffle(body) if rng.random() < 0.3 else None
        decls += body
        if rng.random() < 0.15:
            rng.shuffle(decls)
        m = {"decls": decls}
        m.update(local)
        return m


# --------------------------------------------------------------------------------------------------
# canonical form (what the parser must produce)

def c_z(v):
    a = abs(v)
    return [1 if v < 0 else 0, a >> 32, a & 0xffffffff]


def c_anns(a):
    return [[x["name"], x["value"] if x["value"] is not None else b""] for x in a]


def c_doc(d):
    return [] if d is None else [list(d)]


def c_type(t):
    return [t["name"], [c_type(t["key"])] if t["key"] else [], [c_type(t["val"])] if t["val"] else [], c_anns(t["anns"])]


def double_text(d):
    s = d["sign"] + d["ip"] + b"." + d["fp"]
    if d["exp"] is not None:
        s += b"e" + str(d["exp"]).encode()
    return s


def double_bits(d):
    import struct
    v = float(double_text(d).decode())
    b = struct.unpack(">Q", struct.pack(">d", v))[0]
    return b


def c_value(v):
    k, x = v
    if k == "str":
        return [0, x]
    if k == "bool":
        return [1, 1 if x else 0]
    if k == "int":
        return [2, c_z(x)]
    if k == "double":
        b = double_bits(x)
        return [3, b >> 32, b & 0xffffffff]
    if k == "list":
        return [4, [c_value(y) for y in x]]
    if k == "map":
        return [5, [[c_value(a), c_value(b)] for a, b in x]]
    if k == "ident":
        return [6, x]
    raise ValueError(k)


def c_field(f, force_mod=None):
    return [c_doc(f["doc"]), c_z(f["id"]), f["name"], force_mod if force_mod is not None else f["mod"],
            c_type(f["type"]), [c_value(f["default"])] if f["default"] is not None else [], c_anns(f["anns"])]


def thrift_enum_numbering(values):
    """Apache Thrift (t_enum::resolve_values): an explicit value is kept, an implicit one is previous + 1, first 0."""
    out, nxt = [], 0
    for v in values:
        x = v["explicit"] if v["explicit"] is not None else nxt
        nxt = x + 1
        out.append(x)
    return out


def include_name(value):
    base = value.rstrip(b"/").rsplit(b"/", 1)[-1] if value else b"."
    if base == b"":
        base = b"/"
    ix = base.rfind(b".")
    return base[:ix] if ix > 0 else base


def canon(m, sort_scopes=False):
    incs, nss, tds, cs, es, ss, xs, us, svs, scs = ([] for _ in range(10))
    for k, d in m["decls"]:
        if k == "include":
            incs.append([include_name(d["value"]), d["value"], c_anns(d["anns"])])
        elif k == "namespace":
            nss.append([d["scope"], d["value"], c_anns(d["anns"])])
        elif k == "typedef":
            tds.append([c_doc(d["doc"]), d["name"], c_type(d["type"]), c_anns(d["anns"])])
        elif k == "const":
            cs.append([c_doc(d["doc"]), d["name"], c_type(d["type"]), c_value(d["value"]), c_anns(d["anns"])])
        elif k == "enum":
            nums = thrift_enum_numbering(d["values"])
            es.append([c_doc(d["doc"]), d["name"],
                       [[c_doc(v["doc"]), v["name"], c_z(n), c_anns(v["anns"])] for v, n in zip(d["values"], nums)],
                       c_anns(d["anns"])])
        elif k == "struct":
            ss.append([c_doc(d["doc"]), d["name"], [c_field(f) for f in d["fields"]], 0, c_anns(d["anns"])])
        elif k == "exception":
            xs.append([c_doc(d["doc"]), d["name"], [c_field(f) for f in d["fields"]], 1, c_anns(d["anns"])])
        elif k == "union":
            us.append([c_doc(d["doc"]), d["name"], [c_field(f, 1) for f in d["fields"]], 2, c_anns(d["anns"])])
        elif k == "service":
            ms = []
            for f in d["methods"]:
                ms.append([c_doc(f["doc"]), f["name"], 1 if f["oneway"] else 0,
                           [c_type(f["ret"])] if f["ret"] else [], [c_field(a) for a in f["args"]],
                           [c_field(a, 1) for a in (f["throws"] or [])], c_anns(f["anns"])])
            svs.append([c_doc(d["doc"]), d["name"], d["extends"] or b"", ms, c_anns(d["anns"])])
        elif k == "scope":
            scs.append([c_doc(d["doc"]), d["name"], [d["prefix"] or b"", list(d["vars"])],
                        [[c_doc(o["doc"]), o["name"], c_type(o["type"]), c_anns(o["anns"])] for o in d["ops"]],
                        c_anns(d["anns"])])
    if sort_scopes:
        scs.sort(key=lambda s: s[1])
    return [incs, nss, tds, cs, es, ss, xs, us, svs, scs]


def from_json(x):
    """harness dump (hex strings, ints, arrays) -> canonical form with bytes"""
    if isinstance(x, str):
        return bytes.fromhex(x)
    if isinstance(x, list):
        return [from_json(y) for y in x]
    return x


# --------------------------------------------------------------------------------------------------
# renderer

class Renderer:
    def __init__(self, rng, hazard=None, plain=False):
        self.rng = rng
        self.hazard = hazard
        self.hazard_used = False
        self.plain = plain          # plain: single blanks, one declaration per line, no comments
        self.out = bytearray()
        self.features = set()

    # ---- gaps --------------------------------------------------------------------------------
    def _block_comment(self, multiline):
        rng = self.rng
        body = bytes(rng.choice(b"abc xyz 012 ,;{}()<>'\"#/@!" + (b"\n" if multiline else b"")) for _ in range(rng.randrange(0, 10)))
        body = body.replace(b"*/", b"* /")
        c = b"/*" + body + b"*/"
        if c.startswith(b"/**@"):
            c = b"/* *@" + c[4:]
        # "/*" + "/" ... fine; but body ending in "*" then "/" closes early only as intended
        self.features.add("block_comment_ml" if b"\n" in body else "block_comment")
        return c

    def _line_comment(self):
        rng = self.rng
        body = bytes(rng.choice(b"abc xyz 012 ,;{}()<>'\"#/*@!") for _ in range(rng.randrange(0, 10)))
        self.features.add("line_comment")
        return rng.choice([b"//", b"#"]) + body + b"\n"

    def gi(self, required=False):
        """inline gap (grammar `_`): blanks and /* */ comments without a line break"""
        rng = self.rng
        if self.plain:
            s = b" " if required or rng.random() < 0.5 else b""
            self.out += s
            return
        if self.hazard == "newline_inside_declaration" and not self.hazard_used and rng.random() < 0.25:
            self.hazard_used = True
            self.out += rng.choice([b"\n", b" \n  ", b" // why not\n", b"\n\t"])
            return
        s = bytearray()
        r = rng.random()
        n = 0 if r < 0.3 else (1 if r < 0.85 else rng.randrange(2, 4))
        if required and n == 0:
            n = 1
        for _ in range(n):
            q = rng.random()
            if q < 0.75:
                s += rng.choice([b" ", b" ", b"  ", b"\t", b" \t", b"\r"])
            else:
                s += self._block_comment(False)
        self.out += s

    def gf(self, required=False):
        """free gap (grammar `__`): blanks, line breaks, all comment kinds"""
        rng = self.rng
        if self.plain:
            s = b" " if required or rng.random() < 0.5 else b""
            self.out += s
            return
        s = bytearray()
        r = rng.random()
        n = 0 if r < 0.3 else (1 if r < 0.8 else rng.randrange(2, 5))
        if required and n == 0:
            n = 1
        for _ in range(n):
            q = rng.random()
            if q < 0.5:
                s += rng.choice([b" ", b" ", b"  ", b"\t", b"\r\n", b"\r"])
            elif q < 0.75:
                s += rng.choice([b"\n", b"\n\n", b"\n    ", b"\n\t"])
                self.features.add("newline_gap")
            elif q < 0.87:
                s += self._block_comment(rng.random() < 0.5)
            else:
                s += self._line_comment()
        self.out += s

    def ws(self):
        """grammar `WS`: blanks only"""
        if self.plain:
            return
        r = self.rng.random()
        if r < 0.3:
            self.out += self.rng.choice([b" ", b"  ", b"\t", b"\r"])

    def tok(self, b):
        # two word-like tokens must never fuse into one (every such position admits a blank)
        if b and self.out and self.out[-1] in WORD and b[0] in WORD:
            self.out += b" "
        self.out += b

    # ---- lexical items -----------------------------------------------------------------------
    def literal(self, s):
        rng = self.rng
        q = rng.choice([b'"', b"'"])
        other = b"'" if q == b'"' else b'"'
        self.features.add("dq_literal" if q == b'"' else "sq_literal")
        out = bytearray(q)
        i = 0
        text = s.decode("utf8", "surrogateescape")
        for ch in text:
            c = ch.encode("utf8", "surrogateescape")
            if c == q:
                out += b"\\" + q
                self.features.add("escaped_quote")
            elif c == other:
                # the other kind of quote may be written bare or escaped (C10-F20, repaired)
                if (self.hazard == "escaped_other_quote_in_literal" and not self.hazard_used) or rng.random() < 0.3:
                    self.hazard_used = True
                    out += b"\\" + other
                    self.features.add("escaped_other_quote")
                else:
                    out += other
            elif c == b"\\":
                out += b"\\\\"
                self.features.add("escaped_backslash")
            elif c == b"\n":
                out += b"\\n"
            elif c == b"\r":
                out += b"\\r" if rng.random() < 0.7 else b"\r"
            elif c == b"\t":
                out += b"\\t" if rng.random() < 0.5 else b"\t"
            else:
                out += c
        out += q
        self.out += out

    def int_text(self, v, allow_plus=True):
        s = str(v).encode()
        if v >= 0 and allow_plus and self.rng.random() < 0.08:
            s = b"+" + s
            self.features.add("plus_sign")
        if self.rng.random() < 0.04 and not self.plain:
            s = (s[:1] if s[:1] in b"+-" else b"") + b"00" + s.lstrip(b"+-")
            self.features.add("leading_zeros")
        return s

    def anns(self, a, always=False):
        """TypeAnnotations: '(' __ (name _ ('=' __ Literal)? sep? __)* ')'"""
        rng = self.rng
        if not a and not (always or rng.random() < 0.03):
            return False
        self.features.add("annotations" if a else "empty_annotations")
        self.tok(b"(")
        self.gf()
        for i, x in enumerate(a):
            self.tok(x["name"])
            if x["value"] is not None:
                self.gi()
                self.tok(b"=")
                self.gf()
                self.literal(x["value"])
            elif self.plain or rng.random() < 0.5:
                pass
            sep = rng.choice([b",", b";", b""])
            last = i == len(a) - 1
            if sep == b"" and not last:
                # the next token is an identifier: keep them apart
                if x["value"] is None:
                    self.tok(b" ")
                self.gf()
            else:
                if sep:
                    # the separator must follow directly (no gap between value and separator in the grammar)
                    self.tok(sep)
                self.gf()
        self.tok(b")")
        return True

    def opt_anns(self, a):
        """`_ annotations:TypeAnnotations?`"""
        self.gi()
        self.anns(a)

    def ftype(self, t):
        name = t["name"]
        if name in (b"list", b"set", b"map") and t["val"] is not None:
            if t.get("cpp") is not None and name != b"list":
                self.features.add("cpp_type")
                self.tok(b"cpp_type")
                self.literal(t["cpp"])
            self.tok(name + b"<")
            self.ws()
            if name == b"map":
                self.ftype(t["key"])
                self.ws()
                self.tok(b",")
                self.ws()
            self.ftype(t["val"])
            self.ws()
            self.tok(b">")
            self.features.add("container_" + name.decode())
            if t["anns"]:
                self.gi()
                self.anns(t["anns"], always=True)
        elif name in BASE_TYPES and t["key"] is None and t["val"] is None:
            self.tok(name)
            if t["anns"]:
                self.gi()
                self.anns(t["anns"], always=True)
                self.features.add("base_type_annotations")
        else:
            self.tok(name)
            if b"." in name:
                self.features.add("qualified_type")

    def double(self, d):
        s = d["sign"] + d["ip"] + b"." + d["fp"]
        if d["exp"] is not None:
            e = str(d["exp"]).encode()
            if d["exp"] >= 0 and self.rng.random() < 0.3:
                e = b"+" + e
            s += self.rng.choice([b"e", b"E"]) + e
            self.features.add("double_exponent")
        self.features.add("double")
        self.tok(s)

    def const_value(self, v):
        rng = self.rng
        k, x = v
        if k == "int":
            self.tok(self.int_text(x))
            self.features.add("const_int")
        elif k == "str":
            self.literal(x)
        elif k == "bool":
            self.tok(b"true" if x else b"false")
            self.features.add("const_bool")
        elif k == "double":
            self.double(x)
        elif k == "ident":
            self.tok(x)
            self.features.add("const_ident")
        elif k == "list":
            self.features.add("const_list")
            self.tok(b"[")
            self.gf()
            for i, y in enumerate(x):
                self.const_value(y)
                sep = rng.choice([b",", b";", b""])
                if sep:
                    self.gf()
                    self.tok(sep)
                    self.gf()
                else:
                    nxt = x[i + 1] if i + 1 < len(x) else None
                    # without a separator two adjacent values must not fuse into one token
                    self.gf(required=nxt is not None and self._fuses(y, nxt))
            self.gf()
            self.tok(b"]")
        elif k == "map":
            self.features.add("const_map")
            self.tok(b"{")
            self.gf()
            for i, (a, b) in enumerate(x):
                self.const_value(a)
                self.gf()
                self.tok(b":")
                self.gf()
                self.const_value(b)
                self.gf()
                last = i == len(x) - 1
                if self.hazard == "const_map_semicolon_separator" and not self.hazard_used and not last:
                    self.hazard_used = True
                    self.tok(b";")
                elif not last and not self.plain and rng.random() < 0.15:
                    # no separator at all (Thrift's CommaOrSemicolonOptional; C10-F23, repaired)
                    self.features.add("const_map_no_separator")
                    if not self.out[-1:].isspace():
                        self.tok(b" ")
                elif not last or rng.random() < 0.5:
                    # ',' or ';' (C10-F18, repaired)
                    if rng.random() < 0.25:
                        self.tok(b";")
                        self.features.add("const_map_semicolon")
                    else:
                        self.tok(b",")
                self.gf()
            self.tok(b"}")

    @staticmethod
    def _fuses(a, b):
        simple = ("int", "bool", "double", "ident")
        return a[0] in simple and b[0] in simple

    def docstring(self, lines):
        rng = self.rng
        self.features.add("docstring")
        if len(lines) == 1 and rng.random() < 0.5:
            self.tok(b"/**@ " + lines[0] + b" */")
        else:
            self.tok(b"/**@\n")
            for l in lines:
                self.tok(b" * " + l + b"\n" if l else b" *\n")
            self.tok(b" */")
        self.gf()

    def sep(self, last, next_is_word=True):
        """ListSeparator? after a field / enum value / function / operation (no gap before it)"""
        rng = self.rng
        s = rng.choice([b",", b";", b""])
        if s:
            self.tok(s)
            self.features.add("sep_comma" if s == b"," else "sep_semicolon")
            self.gf()
        else:
            self.features.add("sep_none")
            self.gf(required=not last and next_is_word)

    def eos(self, last):
        """EOS <- __ ';' / _ SingleLineComment? EOL / __ EOF"""
        rng = self.rng
        r = rng.random()
        if self.plain:
            self.tok(b";\n" if r < 0.3 else b"\n")
            return
        if r < 0.3:
            self.gf()
            self.tok(b";")
            self.features.add("eos_semicolon")
        elif r < 0.9 or not last:
            self.gi()
            if rng.random() < 0.25:
                self.out += self._line_comment()
                self.features.add("eos_line_comment")
            else:
                self.tok(b"\n")
                self.features.add("eos_newline")
        else:
            self.gf()
            self.features.add("eos_eof")
            return "eof"

    def field(self, f, last, in_struct=True):
        if f["doc"] is not None:
            self.docstring(f["doc"])
        s = self.int_text(f["id"], allow_plus=f.get("id_plus", False))
        self.tok(s)
        self.gi()
        self.tok(b":")
        self.gi()
        if f["mod"] == 0:
            self.tok(b"required")
            self.gi(required=True)
            self.features.add("required")
        elif f["mod"] == 1:
            self.tok(b"optional")
            self.gi(required=True)
            self.features.add("optional")
        self.ftype(f["type"])
        self.gi(required=True)
        self.tok(f["name"])
        if f["default"] is not None:
            self.gf()
            self.tok(b"=")
            self.gi()
            self.const_value(f["default"])
            self.features.add("field_default")
            self.gi()
        else:
            self.gf()
        if self.anns(f["anns"]):
            pass
        self.sep(last, next_is_word=False)

    def field_list(self, fs):
        for i, f in enumerate(fs):
            self.field(f, i == len(fs) - 1)

    def decl(self, k, d, last):
        rng = self.rng
        if d.get("doc") is not None and k not in ("include", "namespace"):
            self.docstring(d["doc"])
        if k == "include":
            self.tok(b"include")
            self.gi()
            self.literal(d["value"])
            self.opt_anns(d["anns"])
        elif k == "namespace":
            self.tok(b"namespace")
            self.gi(required=True)
            self.tok(d["scope"])
            self.gi(required=True)
            self.tok(d["value"])
            self.opt_anns(d["anns"])
        elif k == "typedef":
            self.tok(b"typedef")
            self.gi(required=True)
            self.ftype(d["type"])
            self.gi(required=True)
            self.tok(d["name"])
            self.opt_anns(d["anns"])
        elif k == "const":
            self.tok(b"const")
            self.gi(required=True)
            self.ftype(d["type"])
            self.gi(required=True)
            self.tok(d["name"])
            self.gi()
            self.tok(b"=")
            self.gi()
            self.const_value(d["value"])
            self.opt_anns(d["anns"])
        elif k == "enum":
            self.tok(b"enum")
            self.gi(required=True)
            self.tok(d["name"])
            self.gf()
            self.tok(b"{")
            self.gf()
            for i, v in enumerate(d["values"]):
                if v["doc"] is not None:
                    self.docstring(v["doc"])
                self.tok(v["name"])
                self.gi()
                if v["explicit"] is not None:
                    self.tok(b"=")
                    self.gi()
                    self.tok(self.int_text(v["explicit"]))
                    self.gi()
                    self.features.add("enum_explicit")
                else:
                    self.features.add("enum_implicit")
                self.anns(v["anns"])
                self.sep(i == len(d["values"]) - 1)
            self.tok(b"}")
            self.opt_anns(d["anns"])
        elif k in ("struct", "exception", "union"):
            self.tok(k.encode())
            self.gi(required=True)
            self.tok(d["name"])
            self.gf()
            self.tok(b"{")
            self.gf()
            self.field_list(d["fields"])
            self.tok(b"}")
            self.opt_anns(d["anns"])
            self.features.add(k)
        elif k == "service":
            self.tok(b"service")
            self.gi(required=True)
            self.tok(d["name"])
            self.gi()
            if d["extends"]:
                if self.out[-1:] not in (b" ", b"\t", b"\r", b"/"):
                    self.tok(b" ")
                self.tok(b"extends")
                self.gf(required=True)
                self.tok(d["extends"])
                self.gf()
                self.features.add("extends_qualified" if b"." in d["extends"] else "extends")
            self.gf()
            self.tok(b"{")
            self.gf()
            for i, m in enumerate(d["methods"]):
                if m["doc"] is not None:
                    self.docstring(m["doc"])
                if m["oneway"]:
                    self.tok(b"oneway")
                    self.gf(required=True)
                    self.features.add("oneway")
                if m["ret"] is None:
                    self.tok(b"void")
                else:
                    self.ftype(m["ret"])
                self.gf(required=True)
                self.tok(m["name"])
                self.gi()
                self.tok(b"(")
                self.gf()
                self.field_list(m["args"])
                self.tok(b")")
                self.gf()
                if m["throws"] is not None:
                    self.tok(b"throws")
                    self.gf()
                    self.tok(b"(")
                    self.gf()
                    self.field_list(m["throws"])
                    self.tok(b")")
                    self.features.add("throws")
                self.gi()
                self.anns(m["anns"])
                self.sep(i == len(d["methods"]) - 1)
            self.tok(b"}")
            self.opt_anns(d["anns"])
        elif k == "scope":
            self.tok(b"scope")
            self.gf(required=True)
            self.tok(d["name"])
            self.gf()
            if d["prefix"] is not None:
                if self.out[-1:] not in (b" ", b"\t", b"\r", b"\n", b"/"):
                    self.tok(b" ")
                self.tok(b"prefix")
                if self.hazard == "comment_after_prefix_keyword" or (not self.plain and rng.random() < 0.2):
                    # a comment between the keyword and the prefix (C10-F17, repaired)
                    self.hazard_used = True
                    self.features.add("comment_after_prefix")
                    self.tok(rng.choice([b" /* topic */ ", b" // the topic\n   ", b"/*x*/"]))
                else:
                    self.tok(rng.choice([b" ", b"  ", b"\t", b"\n  "]))
                self.tok(d["prefix"])
                self.features.add("prefix_vars" if d["vars"] else "prefix")
                # PrefixWord swallows everything up to blank / '.' / braces: a blank must follow
                self.tok(rng.choice([b" ", b"\n", b"\t"]))
            self.gf()
            self.tok(b"{")
            self.gf()
            for i, o in enumerate(d["ops"]):
                if o["doc"] is not None:
                    self.docstring(o["doc"])
                self.tok(o["name"])
                self.gi()
                self.tok(b":")
                self.gf()
                self.ftype(o["type"])
                self.gi()
                self.anns(o["anns"])
                self.sep(i == len(d["ops"]) - 1)
            self.tok(b"}")
            self.opt_anns(d["anns"])
        return self.eos(last)

    def render(self, m):
        self.out = bytearray()
        if not self.plain:
            self.gf()
        n = len(m["decls"])
        for i, (k, d) in enumerate(m["decls"]):
            r = self.decl(k, d, i == n - 1)
            if r != "eof" and not self.plain:
                self.gf()
        return bytes(self.out)


# --------------------------------------------------------------------------------------------------
# hazards and repaired constructs: one Thrift-valid construct that the pinned grammar / validation mishandled, in a
# small model

def _t(name):
    return {"name": name, "key": None, "val": None, "anns": []}


def _fld(i, name, t, mod=2, default=None):
    return {"doc": None, "id": i, "name": name, "mod": mod, "type": t, "default": default, "anns": [], "id_plus": False}


def hazard_model(gen, hazard):
    """a small model exhibiting exactly one hazard (lexical hazards are applied by the Renderer)"""
    rng = gen.rng
    cap = lambda b: b[:1].upper() + b[1:]
    base = gen.model(n_decls=rng.randrange(0, 3))
    # keep the random part free of accidental trouble: it is only context
    decls = list(base["decls"])
    D = lambda name, **kw: dict({"doc": None, "name": name, "anns": []}, **kw)
    if hazard == "basetype_prefixed_type":
        t = rng.choice(BASE_TYPES) + rng.choice([b"x", b"List", b"_data", b"2", b"Value"])
        where = rng.randrange(4)
        decls.append(("struct", D(t, fields=[])))
        if where == 0:
            decls.append(("typedef", D(gen.type_name(), type=_t(t))))
        elif where == 1:
            decls.append(("struct", D(gen.type_name(), fields=[_fld(1, b"f", _t(t))])))
        elif where == 2:
            decls.append(("struct", D(gen.type_name(), fields=[_fld(1, b"f", {"name": b"list", "key": None, "val": _t(t), "anns": []})])))
        else:
            decls.append(("service", D(gen.ident(), extends=None, methods=[
                {"doc": None, "name": b"get", "oneway": False, "ret": _t(t), "args": [], "throws": None, "anns": []}])))
    elif hazard == "modifier_prefixed_type":
        t = rng.choice([b"required", b"optional"]) + cap(gen.ident(kw_ok=False))
        decls.append(("struct", D(t, fields=[])))
        decls.append(("struct", D(gen.type_name(), fields=[_fld(1, b"f", _t(t), mod=2)])))
    elif hazard == "oneway_prefixed_return_type":
        t = b"oneway" + cap(gen.ident(kw_ok=False))
        decls.append(("struct", D(t, fields=[])))
        decls.append(("service", D(gen.ident(), extends=None, methods=[
            {"doc": None, "name": b"get", "oneway": False, "ret": _t(t), "args": [], "throws": None, "anns": []}])))
    elif hazard == "void_prefixed_return_type":
        t = b"void" + cap(gen.ident(kw_ok=False))
        decls.append(("struct", D(t, fields=[])))
        decls.append(("service", D(gen.ident(), extends=None, methods=[
            {"doc": None, "name": b"get", "oneway": False, "ret": _t(t), "args": [], "throws": None, "anns": []}])))
    elif hazard == "bool_prefixed_const_ref":
        c = rng.choice([b"true", b"false"]) + cap(gen.ident(kw_ok=False))
        decls.append(("const", D(c, type=_t(b"bool"), value=("bool", True))))
        if rng.random() < 0.5:
            decls.append(("const", D(gen.const_name(), type=_t(b"bool"), value=("ident", c))))
        else:
            decls.append(("const", D(gen.const_name(), type={"name": b"list", "key": None, "val": _t(b"bool"), "anns": []},
                                     value=("list", [("ident", c)]))))
    elif hazard == "newline_inside_declaration":
        decls.append(("typedef", D(gen.type_name(), type=_t(b"i32"))))
        decls.append(("const", D(gen.const_name(), type=_t(b"i32"), value=("int", 5))))
    elif hazard == "comment_after_prefix_keyword":
        decls.append(("scope", D(gen.ident(), prefix=b"foo.{bar}.baz", vars=[b"bar"], ops=[])))
    elif hazard == "const_map_semicolon_separator":
        decls.append(("const", D(gen.const_name(), type={"name": b"map", "key": _t(b"i32"), "val": _t(b"i32"), "anns": []},
                                 value=("map", [(("int", 1), ("int", 2)), (("int", 3), ("int", 4))]))))
    elif hazard == "literal_trailing_backslash":
        decls.append(("const", D(gen.const_name(), type=_t(b"string"), value=("str", b"C:\\dir\\"))))
    elif hazard == "escaped_other_quote_in_literal":
        decls.append(("const", D(gen.const_name(), type=_t(b"string"), value=("str", b"it's a \"quote\""))))
    elif hazard == "enum_ref_constant":
        e = gen.ident()
        decls.append(("enum", D(e, values=[{"doc": None, "name": b"A", "explicit": None, "anns": []},
                                           {"doc": None, "name": b"B", "explicit": None, "anns": []}])))
        decls.append(("const", D(gen.const_name(), type=_t(e), value=("ident", e + b".B"))))
    else:
        raise ValueError(hazard)
    m = dict(base)
    m["decls"] = decls
    return m


# --------------------------------------------------------------------------------------------------
# malformed stream

def mutate(rng, text):
    b = bytearray(text)
    for _ in range(rng.randrange(1, 4)):
        r = rng.random()
        if not b:
            b += bytes([rng.randrange(256)])
            continue
        i = rng.randrange(len(b))
        if r < 0.2:
            del b[i:i + rng.randrange(1, 6)]
        elif r < 0.4:
            b[i:i] = bytes(rng.choice(b"{}()<>,;:=\"'*/#@ \n\t0123456789abcxyz._-+") for _ in range(rng.randrange(1, 4)))
        elif r < 0.55:
            b[i] = rng.choice(b"{}()<>,;:=\"'*/#.\n ")
        elif r < 0.65:
            b[i:i] = rng.choice([b"\xff", b"\xc3", b"\xe2\x82", b"\xef\xbf\xbd", b"\xed\xa0\x80", b"\xc0\x80", b"\xf4\x90\x80\x80", b"\x00"])
        elif r < 0.75:
            del b[i:]
        elif r < 0.85:
            kw = rng.choice(sorted(KEYWORDS))
            b[i:i] = b" " + kw + b" "
        elif r < 0.93:
            b[i:i] = rng.choice([b"99999999999999999999", b"1e999", b"1.5e999", b"-1.e-999", b".", b"+.e1", b"1.'5",
                                 b"\"\\q\"", b"'\\\"'", b"\"\\u12\"", b"\"\\777\"", b"\"a\nb\"", b"prefix {a}.{}",
                                 b"/**@ x */ /**@ y */", b"/* unterminated", b"'unterminated"])
        else:
            j = rng.randrange(len(b))
            i, j = min(i, j), max(i, j)
            b[i:i] = b[i:j][:40]
    return bytes(b)


# --------------------------------------------------------------------------------------------------
# semantic faults: programs Frugal.validate must reject (the checks added by the repository's repairs
# "validate that an extended service exists and that extends chains are not circular", "reject a throws
# clause whose type is not an exception", "reject duplicate field names, and duplicate ids among the
# exceptions of a method", "validation rejects a scope prefix that names the same variable twice", and
# the older duplicate-id checks).  A fault is injected into an otherwise valid model, which is then
# rendered like any other, so the invalid construct appears in every lexical style.

FAULTS = ["dangling_extends", "dangling_extends_include", "circular_extends", "throws_non_exception",
          "throws_container", "throws_alias_non_exception", "dup_field_name", "dup_arg_name", "dup_throws_name",
          "dup_throws_id", "dup_arg_id", "dup_field_id", "dup_prefix_var",
          # values which do not conform to the declared type (repo fix "validation checks that constant values
          # and default values conform to their declared type", was C11-K13)
          "const_wrong_kind", "const_out_of_range", "const_bad_element", "const_enum_undeclared",
          "const_struct_bad", "const_ref_wrong_kind", "const_nested_dangling_ref", "default_wrong_kind",
          "default_arg_wrong_kind",
          # a different file of the including file's name (repo fix "include cycles are detected by the cleaned
          # path", was C11-K14): no cycle, and a real cycle through two files of one name
          "include_same_name_other_dir", "include_same_name_cycle"]

# what the diagnostic of the rejected file must contain (the include chain prefixes "Include x: ")
FAULT_MSG = {
    "dangling_extends": r"Invalid extends \S+ for service \S+",
    "dangling_extends_include": r"Invalid extends \S+ for service \S+",
    "circular_extends": r"Circular extends \S+",
    "throws_non_exception": r"Invalid exception type \S+ for \S+: not an exception",
    "throws_container": r"Invalid exception type \S+ for \S+: not an exception",
    "throws_alias_non_exception": r"Invalid exception type \S+ for \S+: not an exception",
    "dup_field_name": r"Duplicate field name \S+ in struct \S+",
    "dup_arg_name": r"Duplicate field name \S+ in method \S+",
    "dup_throws_name": r"Duplicate field name \S+ in method \S+",
    "dup_throws_id": r"Duplicate field id -?\d+ in method \S+",
    "dup_arg_id": r"Duplicate field id -?\d+ in method \S+",
    "dup_field_id": r"Duplicate field id -?\d+ in struct \S+",
    "dup_prefix_var": r"Duplicate prefix variable \S+ in scope \S+",
    "const_wrong_kind": r"Invalid value for constant \S+: expected \S+, got ",
    "const_out_of_range": r"Invalid value for constant \S+: expected (i8|byte|i16|i32), got integer -?\d+",
    "const_bad_element": r"Invalid value for constant \S+: expected \S+, got ",
    "const_enum_undeclared": r"Invalid value for constant \S+: expected \S+, got (integer -?\d+|identifier \S+|a string)",
    "const_struct_bad": r"Invalid value for constant \S+: expected ",
    "const_ref_wrong_kind": r"Invalid value for constant \S+: expected \S+, got identifier \S+",
    "const_nested_dangling_ref": r"Referenced constant \S+ not found",
    "default_wrong_kind": r"Invalid value for field \S+ of struct \S+: expected \S+, got ",
    "default_arg_wrong_kind": r"Invalid value for field \S+ of method \S+: expected \S+, got ",
    "include_same_name_other_dir": r"Duplicate file name \S+: \S+ is included by way of \S+ \(includes and generated code are named after the file name\)",
    "include_same_name_cycle": r"Duplicate file name \S+: \S+ is included by way of \S+ ",
}


def _decls_of(m, *kinds):
    return [d for k, d in m["decls"] if k in kinds]


def _new_decl(gen, m, kind, **kw):
    nm = gen.type_name() if kind in ("struct", "exception", "union", "typedef", "enum") else gen.ident()
    d = dict({"doc": None, "name": nm, "anns": []}, **kw)
    # after the includes and namespaces (the renderer emits declarations in model order)
    m["decls"].append((kind, d))
    if kind in ("struct", "exception", "union", "typedef", "enum"):
        m.setdefault("local_types", []).append(nm)
    if kind == "exception":
        m.setdefault("local_exceptions", []).append(nm)
    if kind == "service":
        m.setdefault("local_services", []).append(nm)
    return d


def _method(gen, throws=None, args=None):
    mn = gen.ident()
    return {"doc": None, "name": mn, "oneway": False, "ret": None, "args": args or [], "throws": throws, "anns": []}


def _a_method(gen, rng, m, want=None):
    """a two-way method of the model (one satisfying [want] if there is any), or a new one in a new service"""
    cands = [(s, me) for s in _decls_of(m, "service") for me in s["methods"] if not me["oneway"]]
    good = [c for c in cands if want is None or want(c[1])]
    if good and rng.random() < 0.8:
        return rng.choice(good)[1]
    svcs = _decls_of(m, "service")
    me = _method(gen)
    if svcs and rng.random() < 0.5:
        rng.choice(svcs)["methods"].append(me)
    else:
        _new_decl(gen, m, "service", extends=None, methods=[me])
    return me


def _an_exception(gen, rng, m):
    xs = [d["name"] for d in _decls_of(m, "exception")]
    if xs and rng.random() < 0.8:
        return rng.choice(xs)
    return _new_decl(gen, m, "exception", fields=[])["name"]


def inject_fault(gen, m, kind):
    """make the valid model [m] invalid in exactly the way [kind] names (in place); returns the name of the
    construct that was touched (for the replay record)"""
    rng = gen.rng
    fresh = lambda: gen.ident()
    if kind in ("dangling_extends", "dangling_extends_include"):
        svcs = _decls_of(m, "service")
        s = rng.choice(svcs) if svcs and rng.random() < 0.7 else _new_decl(gen, m, "service", extends=None, methods=[])
        incs = [include_name(d["value"]) for d in _decls_of(m, "include")]
        if kind == "dangling_extends":
            # no such service in this file (a struct's name is not a service either)
            others = [d["name"] for d in _decls_of(m, "struct", "exception", "union", "enum", "typedef")]
            s["extends"] = rng.choice(others) if others and rng.random() < 0.3 else fresh()
        elif incs and rng.random() < 0.7:
            s["extends"] = rng.choice(incs) + b"." + fresh()          # the include has no such service
        else:
            s["extends"] = fresh() + b"." + fresh()                   # no such include
        return s["name"]
    if kind == "circular_extends":
        svcs = _decls_of(m, "service")
        n = rng.choice([1, 2, 2, 3])
        while len(svcs) < n:
            svcs.append(_new_decl(gen, m, "service", extends=None, methods=[]))
        ring = rng.sample(svcs, n)
        for a, b in zip(ring, ring[1:] + ring[:1]):
            a["extends"] = b["name"]
        # a service outside the ring may lead into it: its walk meets the cycle as well
        rest = [s for s in svcs if s not in ring and not s["extends"]]
        if rest and rng.random() < 0.5:
            rng.choice(rest)["extends"] = ring[0]["name"]
        return ring[0]["name"]
    if kind in ("throws_non_exception", "throws_container", "throws_alias_non_exception"):
        me = _a_method(gen, rng, m)
        xs = {d["name"] for d in _decls_of(m, "exception")}
        if kind == "throws_non_exception":
            pool = [d["name"] for d in _decls_of(m, "struct", "union", "enum")] + list(BASE_TYPES)
            if rng.random() < 0.3:
                pool = [_new_decl(gen, m, rng.choice(["struct", "union"]), fields=[])["name"]]
            t = _t(rng.choice(pool))
        elif kind == "throws_container":
            x = _an_exception(gen, rng, m)
            c = rng.choice([b"list", b"set", b"map"])
            t = {"name": c, "key": _t(b"string") if c == b"map" else None, "val": _t(x), "anns": []}
        else:
            target = rng.choice([d["name"] for d in _decls_of(m, "struct", "union", "enum")] + list(BASE_TYPES))
            td = _new_decl(gen, m, "typedef", type=_t(target))
            if rng.random() < 0.4:
                td = _new_decl(gen, m, "typedef", type=_t(td["name"]))     # a chain of two aliases
            t = _t(td["name"])
        good = [f for f in (me["throws"] or [])]
        ids = {f["id"] for f in good}
        i = next(k for k in range(1, 100) if k not in ids)
        bad = _fld(i, fresh(), t, mod=rng.choice([0, 1, 2]))
        gen.used.discard(bad["name"])
        me["throws"] = good + [bad]
        rng.shuffle(me["throws"])
        return me["name"]
    if kind in ("dup_field_name", "dup_field_id"):
        sts = [d for d in _decls_of(m, "struct", "exception", "union") if len(d["fields"]) >= 2]
        if sts and rng.random() < 0.8:
            d = rng.choice(sts)
        else:
            d = _new_decl(gen, m, rng.choice(["struct", "exception", "union"]),
                          fields=[_fld(1, b"first", _t(b"i32")), _fld(2, b"second", _t(b"string")),
                                  _fld(3, b"third", _t(b"bool"))][:rng.choice([2, 3])])
        a, b = rng.sample(range(len(d["fields"])), 2)
        key = "name" if kind == "dup_field_name" else "id"
        d["fields"][b] = dict(d["fields"][b], **{key: d["fields"][a][key], "id_plus": False})
        return d["name"]
    if kind in ("dup_arg_name", "dup_arg_id", "dup_throws_name", "dup_throws_id"):
        which = "args" if "arg" in kind else "throws"
        me = _a_method(gen, rng, m, want=lambda me: len(me[which] or []) >= 2)
        fs = list(me[which] or [])
        while len(fs) < 2:
            ids = {f["id"] for f in fs}
            i = next(k for k in range(1, 100) if k not in ids)
            nm = fresh()
            gen.used.discard(nm)
            while nm in {f["name"] for f in fs}:
                nm = nm + b"x"
            fs.append(_fld(i, nm, _t(_an_exception(gen, rng, m)) if which == "throws" else _t(b"i32"),
                           mod=rng.choice([0, 1, 2])))
        a, b = rng.sample(range(len(fs)), 2)
        key = "name" if kind.endswith("name") else "id"
        fs[b] = dict(fs[b], **{key: fs[a][key], "id_plus": False})
        me[which] = fs
        return me["name"]
    if kind == "dup_prefix_var":
        scs = _decls_of(m, "scope")
        if scs and rng.random() < 0.7:
            sc = rng.choice(scs)
        else:
            sc = _new_decl(gen, m, "scope", prefix=None, vars=[], ops=[])
        v = rng.choice(sc["vars"]) if sc["vars"] else b"zone"
        toks = sc["prefix"].split(b".") if sc["prefix"] else []
        if not sc["vars"]:
            toks.insert(rng.randrange(len(toks) + 1), b"{" + v + b"}")
        toks.insert(rng.randrange(len(toks) + 1), b"{" + v + b"}")
        sc["prefix"] = b".".join(toks)
        sc["vars"] = [t[1:-1] for t in toks if t.startswith(b"{") and t.endswith(b"}")]
        return sc["name"]
    if kind in VALUE_FAULTS:
        return VALUE_FAULTS[kind](gen, rng, m)
    if kind in ("include_same_name_other_dir", "include_same_name_cycle"):
        # gen_program (c10.py) places the extra file beside the victim: [m["_self"]] is the victim's base name
        base = m["_self"]
        body = b"struct Deep%d {}\n" % rng.randrange(1000)
        if kind == "include_same_name_cycle":
            body = b'include "../' + base + b'"\n' + body
        m["_extra_files"] = {b"zzdup/" + base: body}
        at = 0
        while at < len(m["decls"]) and m["decls"][at][0] == "include" and rng.random() < 0.5:
            at += 1
        m["decls"].insert(at, ("include", {"value": b"zzdup/" + base, "anns": []}))
        return base
    raise ValueError(kind)


def _ct(name, key=None, val=None):
    return {"name": name, "key": key, "val": val, "anns": []}


def _new_const(gen, m, t, v):
    d = {"doc": None, "name": gen.const_name(), "type": t, "value": v, "anns": []}
    m["decls"].append(("const", d))
    m.setdefault("local_consts", []).append(d["name"])
    return d["name"]


def _wrong_scalar(gen, rng, base):
    """a literal of a kind the base type does not take"""
    ints, strs, bools, dbls = ("int", gen.int_value()), ("str", gen.text()), ("bool", rng.random() < 0.5), ("double", gen.double_value())
    lst, mp = ("list", []), ("map", [])
    wrong = {b"bool": [ints, strs, dbls, lst, mp], b"string": [ints, bools, dbls, lst, mp], b"binary": [ints, bools, dbls, lst, mp],
             b"double": [strs, bools, lst, mp]}
    return rng.choice(wrong.get(base, [strs, bools, dbls, lst, mp]))


def _f_const_wrong_kind(gen, rng, m):
    r = rng.random()
    if r < 0.5:
        b = rng.choice(BASE_TYPES + [b"i8"])
        return _new_const(gen, m, _ct(b), _wrong_scalar(gen, rng, b))
    c = rng.choice([b"list", b"set", b"map"])
    t = _ct(c, _ct(b"string") if c == b"map" else None, _ct(rng.choice(BASE_TYPES)))
    v = rng.choice([("int", 5), ("str", b"x"), ("bool", True), ("double", gen.double_value()),
                    ("list", []) if c == b"map" else ("map", [])])
    return _new_const(gen, m, t, v)


def _f_const_out_of_range(gen, rng, m):
    b, lo, hi = rng.choice([(b"byte", -2**7, 2**7), (b"i8", -2**7, 2**7), (b"i16", -2**15, 2**15), (b"i32", -2**31, 2**31)])
    v = rng.choice([hi, lo - 1, hi + rng.randrange(0, 1000), lo - 1 - rng.randrange(0, 1000), 2**63 - 1, -2**63])
    t = _ct(b)
    if rng.random() < 0.3:
        t = _ct(_new_decl(gen, m, "typedef", type=t)["name"])
    return _new_const(gen, m, t, ("int", v))


def _f_const_bad_element(gen, rng, m):
    b = rng.choice([b"i32", b"string", b"bool", b"double", b"i64"])
    good = {b"i32": ("int", 1), b"string": ("str", b"s"), b"bool": ("bool", False), b"double": ("double", gen.double_value()), b"i64": ("int", 2**40)}[b]
    bad = _wrong_scalar(gen, rng, b)
    r = rng.random()
    if r < 0.4:
        c = rng.choice([b"list", b"set"])
        items = [good] * rng.randrange(0, 3) + [bad] + [good] * rng.randrange(0, 2)
        return _new_const(gen, m, _ct(c, None, _ct(b)), ("list", items))
    if r < 0.6:
        return _new_const(gen, m, _ct(b"list", None, _ct(b"list", None, _ct(b))), ("list", [("list", [good]), ("list", [good, bad])]))
    if r < 0.8:
        return _new_const(gen, m, _ct(b"map", _ct(b"string"), _ct(b)), ("map", [(("str", b"a"), good), (("str", b"b"), bad)]))
    return _new_const(gen, m, _ct(b"map", _ct(b), _ct(b"string")), ("map", [(good, ("str", b"a")), (bad, ("str", b"b"))]))


def _enum_numbers(d):
    out, nxt = [], 0
    for v in d["values"]:
        n = v["explicit"] if v["explicit"] is not None else nxt
        nxt = n + 1
        out.append((v["name"], n))
    return out


def _f_const_enum_undeclared(gen, rng, m):
    a, b = gen.ident(), gen.ident()
    e = _new_decl(gen, m, "enum", values=[{"doc": None, "name": a, "explicit": 1, "anns": []},
                                          {"doc": None, "name": b, "explicit": None, "anns": []}])
    other = _new_decl(gen, m, "enum", values=[{"doc": None, "name": a, "explicit": None, "anns": []}])
    t = _ct(e["name"])
    if rng.random() < 0.3:
        t = _ct(_new_decl(gen, m, "typedef", type=t)["name"])
    v = rng.choice([("int", 0), ("int", 3), ("int", -1), ("ident", other["name"] + b"." + a), ("str", a)])
    return _new_const(gen, m, t, v)


def _f_const_struct_bad(gen, rng, m):
    kind = rng.choice(["struct", "union", "exception"])
    st = _new_decl(gen, m, kind, fields=[_fld(1, b"first", _ct(b"i32")), _fld(2, b"second", _ct(b"string")),
                                         _fld(3, b"third", _ct(b"list", None, _ct(b"bool")))])
    t = _ct(st["name"])
    if rng.random() < 0.3:
        t = _ct(_new_decl(gen, m, "typedef", type=t)["name"])
    v = rng.choice([("int", 5), ("list", []), ("str", b"x"),
                    ("map", [(("int", 1), ("int", 2))]),
                    ("map", [(("str", b"first"), ("str", b"one"))]),
                    ("map", [(("ident", b"second"), ("int", 2))]),
                    ("map", [(("str", b"first"), ("int", 1)), (("str", b"third"), ("list", [("bool", True), ("int", 0)]))]),
                    ("map", [(("str", b"nosuchfield"), ("int", 1)), (("str", b"third"), ("int", 0))])])
    return _new_const(gen, m, t, v)


def _f_const_ref_wrong_kind(gen, rng, m):
    pairs = [(b"i32", ("int", 1), b"string"), (b"string", ("str", b"s"), b"i64"), (b"bool", ("bool", True), b"i32"),
             (b"double", ("double", gen.double_value()), b"i32"), (b"i32", ("int", 1), b"bool")]
    src_t, src_v, dst = rng.choice(pairs)
    src = _new_const(gen, m, _ct(src_t), src_v)
    if rng.random() < 0.3:
        return _new_const(gen, m, _ct(b"list", None, _ct(dst)), ("list", [("ident", src)]))
    return _new_const(gen, m, _ct(dst), ("ident", src))


def _f_const_nested_dangling_ref(gen, rng, m):
    nosuch = gen.const_name()
    gen.used.discard(nosuch)
    r = rng.random()
    if r < 0.5:
        return _new_const(gen, m, _ct(b"list", None, _ct(b"i32")), ("list", [("int", 1), ("ident", nosuch)]))
    return _new_const(gen, m, _ct(b"map", _ct(b"string"), _ct(b"i32")), ("map", [(("str", b"k"), ("ident", nosuch))]))


def _f_default_wrong_kind(gen, rng, m):
    b = rng.choice(BASE_TYPES)
    bad = _wrong_scalar(gen, rng, b)
    if rng.random() < 0.3:
        b, bad = rng.choice([b"i16", b"byte"]), ("int", 70000)
    sts = _decls_of(m, "struct", "exception")
    if sts and rng.random() < 0.6:
        d = rng.choice(sts)
    else:
        d = _new_decl(gen, m, rng.choice(["struct", "exception", "union"]), fields=[])
    ids = {f["id"] for f in d["fields"]}
    i = next(k for k in range(1, 200) if k not in ids)
    nm = gen.ident()
    gen.used.discard(nm)
    while nm in {f["name"] for f in d["fields"]}:
        nm += b"x"
    d["fields"].append(_fld(i, nm, _ct(b), mod=rng.choice([0, 1, 2]), default=bad))
    return d["name"]


def _f_default_arg_wrong_kind(gen, rng, m):
    me = _a_method(gen, rng, m)
    b = rng.choice(BASE_TYPES)
    fs = list(me["args"] or [])
    ids = {f["id"] for f in fs}
    i = next(k for k in range(1, 200) if k not in ids)
    nm = gen.ident()
    gen.used.discard(nm)
    while nm in {f["name"] for f in fs}:
        nm += b"x"
    fs.append(_fld(i, nm, _ct(b), mod=2, default=_wrong_scalar(gen, rng, b)))
    me["args"] = fs
    return me["name"]


VALUE_FAULTS = {
    "const_wrong_kind": _f_const_wrong_kind, "const_out_of_range": _f_const_out_of_range,
    "const_bad_element": _f_const_bad_element, "const_enum_undeclared": _f_const_enum_undeclared,
    "const_struct_bad": _f_const_struct_bad, "const_ref_wrong_kind": _f_const_ref_wrong_kind,
    "const_nested_dangling_ref": _f_const_nested_dangling_ref, "default_wrong_kind": _f_default_wrong_kind,
    "default_arg_wrong_kind": _f_default_arg_wrong_kind,
}


# --------------------------------------------------------------------------------------------------
# values that conform to their declared types (Frugal.validateValues): the model generator draws a
# constant's type and value independently; this pass keeps the type and redraws the value from the same
# pools of literals, directed by the type (typedefs followed in the file which declares them, enums by
# number or by value name, struct literals with string and identifier keys and the odd key which names no
# field, references to constants of the same kind)

def _scoped_underlying(m, t):
    for _ in range(200):
        name = t["name"]
        decl, pn = m, name
        if b"." in name:
            inc, pn = name.split(b".", 1)
            if inc != b"":
                decl = m.get("_incs", {}).get(inc)
                if decl is None:
                    return m, t
        td = None
        for k, d in decl["decls"]:
            if k == "typedef" and d["name"] == pn:
                td = d
        if td is None:
            return m, t
        m, t = decl, td["type"]
    return m, t      # a cycle of typedefs (the caller cuts them before it asks)


def _declaring(m, name):
    if b"." in name:
        inc, pn = name.split(b".", 1)
        if inc != b"":
            return m.get("_incs", {}).get(inc), pn
        return m, pn
    return m, name


def _find_decl(m, name, kinds):
    decl, pn = _declaring(m, name)
    if decl is None:
        return None, None
    for k, d in decl["decls"]:
        if k in kinds and d["name"] == pn:
            return decl, d
    return None, None


INT_RANGES = {b"i8": (-2**7, 2**7), b"byte": (-2**7, 2**7), b"i16": (-2**15, 2**15), b"i32": (-2**31, 2**31),
              b"i64": (-2**63, 2**63)}


def value_kind(m, t):
    sc, u = _scoped_underlying(m, t)
    n = u["name"]
    if n in INT_RANGES:
        return "integer"
    if n in (b"string", b"binary"):
        return "string"
    if n in (b"bool", b"double", b"list", b"set", b"map"):
        return n.decode()
    pn = n.split(b".", 1)[1] if b"." in n else n
    if _find_decl(sc, n, ("enum",))[1] is not None:
        return "enum " + pn.decode("latin1")
    return "struct " + pn.decode("latin1")


def _constants_of_kind(m, kind, avoid):
    out = []
    for k, d in m["decls"]:
        if k == "const" and d["name"] != avoid and value_kind(m, d["type"]) == kind:
            out.append(d["name"])
    for inc, im in m.get("_incs", {}).items():
        for k, d in im["decls"]:
            if k == "const" and value_kind(im, d["type"]) == kind:
                out.append(inc + b"." + d["name"])
    # a local enum named like the include and holding a value of that name would shadow inc.name
    enums = {d["name"]: {v["name"] for v in d["values"]} for k, d in m["decls"] if k == "enum"}
    return [c for c in out if not (b"." in c and c.split(b".")[1] in enums.get(c.split(b".")[0], ()))]


def value_for(gen, home, m, t, depth=0, avoid=None):
    """a value, written in the file [home], which conforms to the type [t] read in the scope [m]; None if
    there is none (an enum without values)"""
    rng = gen.rng
    sc, u = _scoped_underlying(m, t)
    n = u["name"]
    kind = value_kind(m, t)
    refs = _constants_of_kind(home, kind, avoid)
    if kind == "double":
        refs = refs + _constants_of_kind(home, "integer", avoid)
    if refs and rng.random() < 0.15:
        return ("ident", rng.choice(refs))
    if n == b"bool":
        return ("bool", rng.random() < 0.5)
    if n in INT_RANGES:
        lo, hi = INT_RANGES[n]
        for _ in range(20):
            v = gen.int_value()
            if lo <= v < hi:
                return ("int", v)
        return ("int", rng.choice([lo, hi - 1, 0, -1, 1]))
    if n == b"double":
        return ("double", gen.double_value()) if rng.random() < 0.75 else ("int", gen.int_value())
    if n in (b"string", b"binary"):
        return ("str", gen.text())
    if n in (b"list", b"set"):
        items = [value_for(gen, home, sc, u["val"], depth + 1, avoid) for _ in range(rng.randrange(0, 4) if depth < 2 else 0)]
        return ("list", [x for x in items if x is not None])
    if n == b"map":
        pairs = [(value_for(gen, home, sc, u["key"], depth + 1, avoid), value_for(gen, home, sc, u["val"], depth + 1, avoid))
                 for _ in range(rng.randrange(0, 4) if depth < 2 else 0)]
        return ("map", [p for p in pairs if p[0] is not None and p[1] is not None])
    edecl, e = _find_decl(sc, n, ("enum",))
    if e is not None:
        nums = _enum_numbers(e)
        if not nums:
            return ("ident", rng.choice(refs)) if refs else None
        vn, num = rng.choice(nums)
        # by name where the enum can be named from [home]: Enum.VALUE, inc.Enum.VALUE
        if rng.random() < 0.5:
            if edecl is home:
                return ("ident", e["name"] + b"." + vn)
            for inc, im in home.get("_incs", {}).items():
                local_enums = {d["name"] for k, d in home["decls"] if k == "enum"}
                if im is edecl and inc not in local_enums:
                    return ("ident", inc + b"." + e["name"] + b"." + vn)
        return ("int", num)
    sdecl, st = _find_decl(sc, n, ("struct", "union", "exception"))
    if st is None:
        return None
    pairs = []
    if depth < 2:
        for f in st["fields"]:
            if rng.random() < 0.5:
                v = value_for(gen, home, sdecl, f["type"], depth + 1, avoid)
                if v is not None:
                    pairs.append((("str" if rng.random() < 0.6 else "ident", f["name"]), v))
        if rng.random() < 0.15:
            nm = gen.ident()
            gen.used.discard(nm)
            if nm not in {f["name"] for f in st["fields"]}:
                pairs.append((("str", nm), gen.const_value({"consts": []})))
        rng.shuffle(pairs)
    return ("map", pairs)


def conform_values(gen, m, incs, keep=()):
    """[incs]: include key -> model of the included file (already conformed).  Redraw every constant value and
    every default value of [m] so that it conforms to its declared type ([keep]: names of constants to leave
    as they are)."""
    m["_incs"] = dict(incs)
    for k, d in m["decls"]:
        if k == "const" and d["name"] not in keep:
            v = value_for(gen, m, m, d["type"], avoid=d["name"])
            if v is None:
                d["type"], v = _ct(b"i32"), ("int", 0)
            d["value"] = v
    # (constants first: their types are final now, and a reference is judged by the declared type alone)
    def fix(fields):
        for f in fields or []:
            if f.get("default") is not None:
                f["default"] = value_for(gen, m, m, f["type"])
    for k, d in m["decls"]:
        if k in ("struct", "union", "exception"):
            fix(d["fields"])
        elif k == "service":
            for me in d["methods"]:
                fix(me["args"])
                fix(me["throws"])


def alias_throws(gen, m):
    """valid neighbour of [throws_alias_non_exception]: a method throws an exception through a typedef (isException
    looks at the underlying type); returns whether the model changed"""
    rng = gen.rng
    cands = [(me, f) for s in _decls_of(m, "service") for me in s["methods"] for f in (me["throws"] or [])
             if f["type"]["name"] in {d["name"] for d in _decls_of(m, "exception")}]
    if not cands:
        return False
    me, f = rng.choice(cands)
    td = _new_decl(gen, m, "typedef", type=_t(f["type"]["name"]))
    if rng.random() < 0.3:
        td = _new_decl(gen, m, "typedef", type=_t(td["name"]))
    f["type"] = _t(td["name"])
    return True
