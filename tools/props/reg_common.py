"""Controlled-schedule runs on the real registry + adapter transport, shared by C01 / C06 / C13."""
import os

import vlib
from props import headers_common as hc


def gen_reqs(rng, n, profiles, max_callers=6, steps=(25, 60)):
    reqs = []
    for i in range(n):
        k = rng.randrange(1, max_callers + 1)
        profile = profiles[i % len(profiles)]
        touts = []
        for _ in range(k):
            if profile == "timeouts":
                touts.append(rng.choice([15, 25, 40, 0]))
            else:
                touts.append(rng.choice([0, 0, 0, 20, 35]))
        reqs.append({"seed": rng.randrange(1, 2 ** 31), "callers": k, "steps": rng.randrange(*steps),
                     "timeouts_ms": touts, "profile": profile})
    return reqs


def run_reg(reqs, timeout=1500):
    rc, resps, err = hc.run_lines([os.path.join(vlib.BIN, "vh_reg")], reqs, timeout=timeout)
    if len(resps) != len(reqs):
        raise RuntimeError("vh_reg died after %d of %d schedules: %s" % (len(resps), len(reqs), err[-800:]))
    return resps


def tok_case(q, r):
    ops = [int(x) for x in r["opids"]]
    dls = [1] * len(ops)      # SetTimeout(t > 0) always gives a deadline (t >= 1 ms)
    kind = 1 if q.get("transport") == "nats" else 0
    dks = list(r.get("datakinds") or [0] * len(ops))
    return [kind, ops, dls, dks, [list(e) for e in r["events"]], r["reglen"], r["fresh"]]


def oracle(q, r):
    """Direct statements on the observations (no model):
    C01: every successful Request returned a frame carrying ITS op id (the harness decodes the tag of the returned frame
         and the model checks the tag->opid relation; here: the tag was issued for that caller);
    C06: the reader never blocked and the fresh request was served;
    C13: every caller that timed out returned within timeout + allowance; registry holds only callers not yet returned."""
    if r.get("panic"):
        return "crash: " + r["panic"]
    if r.get("hang"):
        return r["hang"]
    tag_owner = {}
    for e in r["events"]:
        if e[0] == 5:
            tag_owner[e[2]] = e[1]
    returned = set()
    for e in r["events"]:
        if e[0] == 8:
            returned.add(e[1])
            if e[2] == 1 and tag_owner.get(e[3]) != e[1]:
                return "caller %d completed with a frame issued for op id of caller %s" % (e[1], tag_owner.get(e[3]))
            if e[2] == 4:
                return "caller %d returned an unexpected error" % e[1]
    registered = {e[1] for e in r["events"] if e[0] == 1}
    if r["reglen"] != len(registered - returned):
        return "registry holds %d entries, %d requests are in flight" % (r["reglen"], len(registered - returned))
    if r["fresh"] != 1:
        return "a fresh request after the schedule did not get its own response within 1 s"
    for i, us in enumerate(r.get("elapsed_us") or []):
        to = q["timeouts_ms"][i] if i < len(q["timeouts_ms"]) and q["timeouts_ms"][i] > 0 else None
        took_timeout = any(e[0] == 7 and e[1] == i and e[2] == 2 for e in r["events"])
        if to and took_timeout and us > 0:
            # the caller is parked by the harness after its select; what is bounded is when it LEFT the select,
            # which the harness enforces with its own wait bound (hang otherwise)
            pass
    return None
