"""Controlled-schedule runs on the real registry + adapter transport and + NATS transport (embedded server),
shared by C01 / C06 / C13."""
import os

import vlib
from props import headers_common as hc


def gen_reqs(rng, n, profiles, max_callers=6, steps=(25, 60)):
    reqs = []
    for i in range(n):
        k = rng.randrange(1, max_callers + 1)
        profile = profiles[i % len(profiles)]
        touts = []
        for _ in range(k):
            if profile == "timeouts":
                touts.append(rng.choice([15, 25, 40, 0]))
            else:
                touts.append(rng.choice([0, 0, 0, 20, 35]))
        # one caller in seven brings a foreign FContext (a wrapper outside the library) that is slow to hand out its
        # op id: it is held inside its own RequestHeader("_opid") while the schedule goes on for the others
        slow = [1 if k > 1 and rng.random() < 0.15 else 0 for _ in range(k)]
        reqs.append({"seed": rng.randrange(1, 2 ** 31), "callers": k, "steps": rng.randrange(*steps),
                     "timeouts_ms": touts, "profile": profile, "slow": slow})
    return reqs


NATS_MAX = 1024 * 1024


def gen_nats_reqs(rng, n, profiles, max_callers=6, steps=(25, 60)):
    """Schedules for the NATS mode of vh_reg. Per caller: len(data) (4 = the empty frame Request answers with (nil, nil);
    > 1 MiB = oversize, detected AFTER Register; exactly 1 MiB = largest accepted), an FContext shared with an earlier
    caller (same op id: Register fails while the other is in flight), a malformed _opid header (Register refuses it), a timeout; `reserve` callers are started only after
    the transport has been closed (NOT_OPEN). Profiles: mixed | wedge | timeouts | status (many 503 and discarded
    messages) | noresp (nobody subscribes to the request subject: the server sends the 503s) | puberr (server with a
    256 KiB max_payload: PublishRequest fails for 300 KB requests)."""
    reqs = []
    for i in range(n):
        k = rng.randrange(1, max_callers + 1)
        profile = profiles[i % len(profiles)]
        touts, sizes, share, badop = [], [], [], []
        for j in range(k):
            if profile == "timeouts":
                touts.append(rng.choice([15, 25, 40, 0, -1]))      # -1: SetTimeout(0), time.After(0) fires at once
            else:
                touts.append(rng.choice([0, 0, 0, 20, 35]))
            x = rng.random()
            if profile == "puberr":
                sizes.append(rng.choice([300000, 300000, 8, 262144, 262145, 4]))
            elif x < 0.08:
                sizes.append(4)
            elif x < 0.16:
                sizes.append(NATS_MAX + rng.choice([1, 2, 1000]))
            elif x < 0.20:
                sizes.append(NATS_MAX)
            else:
                sizes.append(rng.choice([8, 8, 9, 64, 5000]))
            share.append(rng.randrange(0, j) if j > 0 and rng.random() < 0.22 else -1)
            badop.append(1 if share[-1] < 0 and rng.random() < 0.07 else 0)
        reserve = rng.choice([0, 0, 1, 2]) if k > 1 else 0
        reqs.append({"transport": "nats", "seed": rng.randrange(1, 2 ** 31), "callers": k, "steps": rng.randrange(*steps),
                     "timeouts_ms": touts, "sizes": sizes, "share": share, "badop": badop, "reserve": min(reserve, k - 1), "profile": profile})
    return reqs


def run_reg(reqs, timeout=1500):
    rc, resps, err = hc.run_lines([os.path.join(vlib.BIN, "vh_reg")], reqs, timeout=timeout)
    if len(resps) != len(reqs):
        raise RuntimeError("vh_reg died after %d of %d schedules: %s" % (len(resps), len(reqs), err[-800:]))
    # a schedule that looked hung is run again, alone and with five times the wait bounds, before it is believed:
    # the harness's bounds are wall-clock (2 s for a goroutine to reach its next yield point) and a loaded machine
    # can miss them; a real hang is not a matter of patience and shows again
    global HANGS_NOT_REPRODUCED
    hung = [i for i, r in enumerate(resps) if r.get("hang")]
    reproduced = 0
    for n, i in enumerate(hung):
        # when the first few all show again the hang is real and systematic: the rest is believed as observed
        if (n >= 4 and reproduced == n) or n >= 40:
            break
        env = dict(os.environ, VH_PATIENCE="5")
        again_hung = True
        for _ in range(2):
            rc2, again, _ = hc.run_lines([os.path.join(vlib.BIN, "vh_reg")], [reqs[i]], timeout=300, env=env)
            if len(again) == 1 and not again[0].get("hang"):
                resps[i] = again[0]
                HANGS_NOT_REPRODUCED += 1
                again_hung = False
                break
        if again_hung:
            reproduced += 1
    return resps


HANGS_NOT_REPRODUCED = 0


def tok_case(q, r):
    ops = [int(x) for x in r["opids"]]
    dls = [1] * len(ops)      # SetTimeout(t > 0) always gives a deadline (t >= 1 ms)
    kind = 1 if q.get("transport") == "nats" else 0
    dks = list(r.get("datakinds") or [0] * len(ops))
    return [kind, ops, dls, dks, [list(e) for e in r["events"]], r["reglen"], r["fresh"]]


def oracle_nats(q, r):
    """Direct statements on the observations of a NATS schedule (no model):
    C01: a successful Request returned a frame published for ITS op id; SERVICE_NOT_AVAILABLE only after a 503 for ITS op id
         was looked up successfully; a Register error only while another request with the same op id is in flight;
         the empty frame returns (nil, nil) and oversize returns REQUEST_TOO_LARGE, nothing else does;
    C06: the reader never blocked, discarded messages never reached dispatch, the fresh request was served;
    C13: the registry holds exactly the requests that registered and have not returned - on every exit path."""
    if r.get("panic"):
        return "crash: " + r["panic"]
    if r.get("hang"):
        return r["hang"]
    if r.get("unexpected"):
        return r["unexpected"]
    ops = r["opids"]
    dks = r.get("datakinds") or [0] * len(ops)
    tag_op = {}
    inflight = set()
    seen503 = set()
    for e in r["events"]:
        k, a, b, c = e
        if k == 5:
            tag_op[b] = ops[a] if a >= 0 else None
        elif k == 11 and a >= 0 and c == 1:
            seen503.add(ops[a])
        elif k == 1:
            if b == 0:
                if ops[a] == "-1":
                    return "caller %d was registered although its FContext has a malformed op id" % a
                if any(ops[j] == ops[a] for j in inflight):
                    return "caller %d registered op id %s while another request with it is in flight" % (a, ops[a])
                if dks[a] == 1:
                    return "caller %d sent an empty frame and was registered" % a
                inflight.add(a)
            elif b == 1:
                if ops[a] != "-1" and not any(ops[j] == ops[a] for j in inflight):
                    return "caller %d got a Register error, no request with op id %s is in flight" % (a, ops[a])
            elif b == 2:
                if dks[a] != 1:
                    return "caller %d got (nil, nil) for a %d byte request" % (a, q["sizes"][a])
            else:
                return "caller %d: unexpected return before Register (class %d)" % (a, c)
        elif k == 2:
            if b == 1 and dks[a] != 2:
                return "caller %d: REQUEST_TOO_LARGE for a %d byte request" % (a, q["sizes"][a])
            if b == 0 and dks[a] == 2:
                return "caller %d: a %d byte request was published" % (a, q["sizes"][a])
            if b not in (0, 1):
                return "caller %d: unexpected return after Register (class %d)" % (a, c)
        elif k == 8:
            inflight.discard(a)
            if b == 1 and tag_op.get(c) != ops[a]:
                return "caller %d (op id %s) completed with a frame published for op id %s" % (a, ops[a], tag_op.get(c))
            if b == 5 and ops[a] not in seen503:
                return "caller %d (op id %s) reported SERVICE_NOT_AVAILABLE, no 503 for its op id was dispatched" % (a, ops[a])
            if b == 4:
                return "caller %d returned an unexpected error (class %d)" % (a, c)
        elif k == 9 and b != 0:
            return "caller %d: a closed transport answered with class %d, not NOT_OPEN" % (a, c)
        elif k == 6 and a < 0:
            return "reader blocked in the channel send"
    if r["reglen"] != len(inflight):
        return "registry holds %d entries, %d requests are in flight" % (r["reglen"], len(inflight))
    if r["fresh"] != 1:
        return "a fresh request after the schedule was not served within 1.5 s"
    return None


def oracle(q, r):
    """Direct statements on the observations (no model):
    C01: every successful Request returned a frame carrying ITS op id (the harness decodes the tag of the returned frame
         and the model checks the tag->opid relation; here: the tag was issued for that caller);
    C06: the reader never blocked and the fresh request was served;
    C13: every caller that timed out returned within timeout + allowance; registry holds only callers not yet returned."""
    if q.get("transport") == "nats":
        return oracle_nats(q, r)
    if r.get("panic"):
        return "crash: " + r["panic"]
    if r.get("hang"):
        return r["hang"]
    tag_owner = {}
    for e in r["events"]:
        if e[0] == 5:
            tag_owner[e[2]] = e[1]
    returned = set()
    for e in r["events"]:
        if e[0] == 8:
            returned.add(e[1])
            if e[2] == 1 and tag_owner.get(e[3]) != e[1]:
                return "caller %d completed with a frame issued for op id of caller %s" % (e[1], tag_owner.get(e[3]))
            if e[2] == 4:
                return "caller %d returned an unexpected error" % e[1]
    registered = {e[1] for e in r["events"] if e[0] == 1}
    if r["reglen"] != len(registered - returned):
        return "registry holds %d entries, %d requests are in flight" % (r["reglen"], len(registered - returned))
    if r["fresh"] != 1:
        return "a fresh request after the schedule did not get its own response within 1 s"
    for i, us in enumerate(r.get("elapsed_us") or []):
        to = q["timeouts_ms"][i] if i < len(q["timeouts_ms"]) and q["timeouts_ms"][i] > 0 else None
        took_timeout = any(e[0] == 7 and e[1] == i and e[2] == 2 for e in r["events"])
        if to and took_timeout and us > 0:
            # the caller is parked by the harness after its select; what is bounded is when it LEFT the select,
            # which the harness enforces with its own wait bound (hang otherwise)
            pass
    return None
