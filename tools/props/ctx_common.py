"""FContext operation-sequence generator and runner shared by C09 / C17."""
import os

import vlib
from props import headers_common as hc

RESERVED = [b"_opid", b"_cid", b"_timeout"]


def rkey(rng, reserved_p=0.08):
    if rng.random() < reserved_p:
        return rng.choice(RESERVED)
    return hc.rand_bytes(rng, rng.randrange(0, 7), rng.choice([1, 1, 2]))


def rval(rng):
    return hc.rand_bytes(rng, rng.randrange(0, 9), rng.choice([0, 1, 2]))


def gen_seq(rng, n, reserved_p=0.08):
    """random op sequence; returns list of op dicts (harness format)"""
    ops = [{"k": 1, "cid": rval(rng).hex() or "63"}]
    nctx, numap, nproto = 1, 0, 0
    # which contexts implement ephemeral properties: all FContextImpl do
    for _ in range(n):
        r = rng.random()
        i = rng.randrange(nctx)
        if r < 0.08:
            ops.append({"k": 1, "cid": (rval(rng) or b"c").hex()})
            nctx += 1
        elif r < 0.38:
            ops.append({"k": 2, "i": i, "m": rng.choice([0, 0, 1, 2]), "key": rkey(rng, reserved_p).hex(),
                        "val": rval(rng).hex()})
        elif r < 0.46:
            ns = rng.choice([0, 1, 999999, 1000000, 1500000, 5 * 10 ** 9, 123456789, -1, -1500000,
                             rng.randrange(0, 10 ** 12)])
            ops.append({"k": 3, "i": i, "ns": ns})
        elif r < 0.58:
            ops.append({"k": 4, "i": i, "m": rng.choice([0, 1, 2])})
            numap += 1
        elif r < 0.70 and numap:
            ops.append({"k": 5, "u": rng.randrange(numap), "key": rkey(rng, reserved_p).hex(), "val": rval(rng).hex()})
        elif r < 0.82:
            ops.append({"k": 6, "i": i})
            nctx += 1
        elif r < 0.86:
            ops.append({"k": 7})
            nproto += 1
        elif r < 0.94:
            if not nproto:
                ops.append({"k": 7})
                nproto += 1
                continue
            hd = [[rkey(rng, 0.15).hex(), rval(rng).hex()] for _ in range(rng.randrange(0, 5))]
            if rng.random() < 0.85:
                hd.insert(rng.randrange(len(hd) + 1), [b"_opid".hex(), str(rng.randrange(0, 10 ** 6)).encode().hex()])
            if rng.random() < 0.5:
                hd.append([b"_cid".hex(), rval(rng).hex()])
            ops.append({"k": 8, "p": rng.randrange(nproto), "hdrs": hd})
            # the context exists only if an op id was present (the driver recounts from the dumps)
            if any(bytes.fromhex(k) == b"_opid" for k, _ in hd):
                nctx += 1
        else:
            hd = [[rkey(rng, 0.2).hex(), rval(rng).hex()] for _ in range(rng.randrange(0, 5))]
            ops.append({"k": 9, "i": i, "hdrs": hd})
    return ops


def run_ctx(reqs, timeout=600):
    rc, resps, err = hc.run_lines([os.path.join(vlib.BIN, "vh_ctx")], reqs, timeout=timeout)
    if len(resps) != len(reqs):
        raise RuntimeError("vh_ctx died: " + err[-800:])
    return resps


def tok_pairs(hp):
    return [[bytes.fromhex(k), bytes.fromhex(v)] for k, v in (hp or [])]


def tok_op(o, dump_before=None):
    k = o["k"]
    if k == 1:
        return [1, bytes.fromhex(o["cid"])]
    if k == 2:
        return [2, o["i"], o["m"], bytes.fromhex(o["key"]), bytes.fromhex(o["val"])]
    if k == 3:
        return [3, o["i"], o["ns"]]
    if k == 4:
        return [4, o["i"], o["m"]]
    if k == 5:
        return [5, o["u"], bytes.fromhex(o["key"]), bytes.fromhex(o["val"])]
    if k == 6:
        return [6, o["i"]]
    if k == 7:
        return [7]
    if k == 10:
        return [10, o["i"], o["p"]]
    if k == 11:
        return [11, o["i"], o["u"]]
    if k == 12:
        return [12, o["i"], tok_pairs(o["hadd"])]
    hdrs = o.get("hdrs")
    if o.get("from_u") is not None:
        hdrs = dump_before["umaps"][o["from_u"]]
    if k == 8:
        return [8, o["p"], tok_pairs(hdrs)]
    return [9, o["i"], tok_pairs(hdrs)]


def tok_dump(d):
    return [[[tok_pairs(c["req"]), tok_pairs(c["resp"]), tok_pairs(c.get("eph")), c["timeout_ns"]]
             for c in (d.get("ctxs") or [])],
            [tok_pairs(u) for u in (d.get("umaps") or [])]]


def tok_case(ops, resp):
    steps = []
    prev = None
    for o, d in zip(ops, resp["dumps"]):
        steps.append([tok_op(o, prev), tok_dump(d)])
        prev = d
    return [resp["start"], steps]


def gen_call(rng, reserved_p=0.0):
    """one RPC at context level: client context with user headers / cid / timeout -> wire -> server context;
    handler adds response headers (may try to set reserved names) -> wire -> caller's context"""
    ops = [{"k": 1, "cid": (rval(rng) or b"c").hex()}, {"k": 7}]
    for _ in range(rng.randrange(0, 6)):
        ops.append({"k": 2, "i": 0, "m": 0, "key": rkey(rng, reserved_p).hex(), "val": rval(rng).hex()})
    if rng.random() < 0.7:
        ops.append({"k": 3, "i": 0, "ns": rng.choice([1000000, 1500000, 999999, 0, 20 * 10 ** 6, rng.randrange(0, 10 ** 11)])})
    if rng.random() < 0.3:   # response headers already on the caller's context before the call
        ops.append({"k": 2, "i": 0, "m": 1, "key": rkey(rng, 0).hex(), "val": rval(rng).hex()})
    ops.append({"k": 10, "i": 0, "p": 0})
    for _ in range(rng.randrange(0, 6)):
        ops.append({"k": 2, "i": 1, "m": 1, "key": rkey(rng, 0.25).hex(), "val": rval(rng).hex()})
    if rng.random() < 0.3:   # the handler makes an onward call with the received context
        ops.append({"k": 10, "i": 1, "p": 0})
    ops.append({"k": 11, "i": 1, "u": 0})
    return ops


def gen_processor_call(rng):
    """one call through a real FBaseProcessor with a bounded output buffer; a third of them overflow it"""
    ops = [{"k": 1, "cid": (rval(rng) or b"c").hex()}]
    for _ in range(rng.randrange(0, 4)):
        ops.append({"k": 2, "i": 0, "m": 0, "key": rkey(rng, 0).hex(), "val": rval(rng).hex()})
    limit = rng.choice([600, 2000, 70000])
    over = rng.random() < 0.4
    size = limit + rng.randrange(1, 400) if over else rng.randrange(0, max(1, limit - 500))
    hadd = [[rkey(rng, 0.1).hex(), rval(rng).hex()] for _ in range(rng.randrange(0, 5))]
    ops.append({"k": 12, "i": 0, "hadd": hadd, "size": size, "limit": limit, "_over": over})
    if rng.random() < 0.4:       # the same caller context is used for a second call
        hadd2 = [[rkey(rng, 0).hex(), rval(rng).hex()] for _ in range(rng.randrange(0, 3))]
        ops.append({"k": 12, "i": 0, "hadd": hadd2, "size": rng.randrange(0, 100), "limit": 0, "_over": False})
    return ops
