"""C05, framing layer: TFramedTransport.Read / readFrame / readRequestFrame / adapter read loop /
FSimpleServer.accept fed byte streams in chosen chunkings (net.Pipe + TSocket, or a scripted
transport with any terminal error). Called from props/c05.py."""
import os
import struct

import vlib
from props import headers_common as hc

DEFAULT_MAX = 16384000
EOF, TIMED_OUT, NOT_OPEN, OTHER = 6, 3, 2, 7


def opid_frame(rng):
    """a frame the client registry accepts (unregistered op id: dropped)"""
    return hc.ref_marshal([(b"_opid", str(rng.randrange(1, 10 ** 6)).encode())]) + hc.rand_bytes(rng, rng.randrange(0, 6), 0)


def rand_body(rng, n):
    return bytes(rng.randrange(256) for _ in range(n))


def gen_stream(rng, maxlen, body_fn, big=False):
    """0..4 well-formed frames, then one of several tails"""
    s = b""
    for _ in range(rng.randrange(0, 5)):
        r = rng.random()
        if r < 0.15:
            body = b""                                   # zero-size frame
        elif big and r < 0.5:
            body = rand_body(rng, rng.choice([4090, 4096, 4097, 5000, 8192, 9001]))
        else:
            body = body_fn(rng)
        if len(body) > maxlen:
            body = body[:maxlen]
        s += struct.pack(">I", len(body)) + body
    t = rng.random()
    if t < 0.2:
        pass                                             # clean end between frames
    elif t < 0.35:
        s += struct.pack(">I", rng.randrange(1, 40))[:rng.randrange(1, 4)]          # cut inside a header
    elif t < 0.55:
        n = rng.randrange(1, 40)
        s += struct.pack(">I", min(n, maxlen)) + rand_body(rng, rng.randrange(0, min(n, maxlen)))   # cut inside a body
    elif t < 0.8:
        over = rng.choice([maxlen + 1, maxlen + 2, 0x7fffffff, 0x80000000, 0xffffffff, maxlen * 2 + 1])
        s += struct.pack(">I", over % (1 << 32)) + rand_body(rng, rng.randrange(0, 12))  # over the limit
    elif t < 0.9:
        s += struct.pack(">I", 0) + struct.pack(">I", (maxlen + 1) % (1 << 32)) + rand_body(rng, rng.randrange(0, 12))
    else:
        s += struct.pack(">I", maxlen) + rand_body(rng, rng.randrange(0, 9))           # exactly the limit, truncated
    return s


def chunkings(rng, s, n):
    """n different ways to cut s into non-empty chunks"""
    out = []
    if not s:
        return [[]] * n
    out.append([s])
    out.append([s[i:i + 1] for i in range(len(s))] if len(s) <= 400 else
               [s[i:i + 7] for i in range(0, len(s), 7)])
    while len(out) < n:
        k = rng.randrange(1, min(len(s), 12) + 1)
        cuts = sorted(set(rng.randrange(1, len(s)) for _ in range(k - 1))) if len(s) > 1 else []
        if rng.random() < 0.3:
            # cuts right around multiples of 4 near the front (header boundaries)
            cuts = sorted(set(cuts) | {c for c in (3, 4, 5, 7, 8, 9) if 0 < c < len(s)})
        prev, ch = 0, []
        for c in cuts + [len(s)]:
            if c > prev:
                ch.append(s[prev:c])
                prev = c
        out.append(ch)
    return out[:n]


def ref_parse(s, maxlen):
    """reference on the flat stream: (complete frames until the first failure, kind of failure,
    bytes Read may hand out = bodies in order, oversized headers skipped)"""
    frames, i, fail = [], 0, None
    while True:
        if len(s) - i < 4:
            fail = "eof"
            break
        n = struct.unpack(">I", s[i:i + 4])[0]
        if n > maxlen:
            fail = "over"
            break
        if len(s) - i - 4 < n:
            fail = "eof"
            break
        frames.append(s[i + 4:i + 4 + n])
        i += 4 + n
    deliver, i = b"", 0
    while len(s) - i >= 4:
        n = struct.unpack(">I", s[i:i + 4])[0]
        i += 4
        if n > maxlen:
            continue
        deliver += s[i:i + n]
        i += n
    return frames, fail, deliver


def generate(rng, quick):
    """list of (request, meta); meta = dict(kind, stream, maxlen, final, group)"""
    reqs = []
    group = 0

    def add(kind, stream, maxlen, which=None, reads=None, n_chunkings=3, finals=(EOF,)):
        nonlocal group
        group += 1
        chs = chunkings(rng, stream, n_chunkings)
        for ci, ch in enumerate(chs):
            if ci == 0:
                mode, final = "pipe", EOF
                if EOF not in finals:
                    mode, final = "script", finals[0]
            else:
                mode = rng.choice(["pipe", "script"]) if EOF in finals else "script"
                final = EOF if mode == "pipe" else rng.choice(finals)
            q = {"rx": kind, "mode": mode, "chunks": [c.hex() for c in ch], "final": final}
            if kind in ("fr_read", "fr_frames"):
                q["maxlen"] = maxlen
            if which:
                q["which"] = which
            if reads is not None:
                q["reads"] = reads
            reqs.append((q, {"kind": kind, "stream": stream, "chunks": ch, "maxlen": maxlen, "final": final,
                             "group": group, "which": which, "reads": reads}))

    n = 40 if quick else 600
    # TFramedTransport.Read call by call
    for i in range(n):
        maxlen = rng.choice([1, 8, 16, 100, DEFAULT_MAX])
        big = rng.random() < 0.12
        if big:
            maxlen = DEFAULT_MAX
        s = gen_stream(rng, maxlen, lambda r: rand_body(r, r.randrange(1, 24)), big=big)
        ks = [0, 0, 1, 1, 2, 3, 4, 5, 8, 16, 23, 24, 64] + ([4095, 4096, 4097, 5000, 10000] if big else [])
        reads = [rng.choice(ks) for _ in range(rng.randrange(1, 14))]
        finals = rng.choice([(EOF,), (EOF,), (TIMED_OUT,), (OTHER,), (NOT_OPEN,)])
        add("fr_read", s, maxlen, reads=reads, finals=finals)
    # the witness of the repaired defect and relatives
    for s, reads in ((bytes.fromhex("00000000ffffffff4142434445"), [4, 4]),
                     (bytes.fromhex("00000000"), [4]), (bytes.fromhex("0000000000000000"), [1, 1]),
                     (bytes.fromhex("00000000" "00000002" "4142"), [3, 2, 1]),
                     (bytes.fromhex("00000002" "4142" "00fa0001" "43444546"), [5, 5, 5, 5])):
        add("fr_read", s, DEFAULT_MAX, reads=reads)
    # readFrame loops
    for i in range(n):
        maxlen = rng.choice([1, 8, 16, 100, DEFAULT_MAX, DEFAULT_MAX])
        big = rng.random() < 0.1
        if big:
            maxlen = DEFAULT_MAX
        s = gen_stream(rng, maxlen, lambda r: rand_body(r, r.randrange(1, 24)), big=big)
        finals = rng.choice([(EOF,), (EOF,), (TIMED_OUT,), (OTHER,)])
        add("fr_frames", s, maxlen, which=rng.choice(["adapter", "server"]), finals=finals)
    # adapter end to end (default limit)
    for i in range(n // 2):
        s = gen_stream(rng, DEFAULT_MAX, lambda r: opid_frame(r) if r.random() < 0.8 else rand_body(r, r.randrange(1, 30)))
        finals = rng.choice([(EOF,), (EOF,), (TIMED_OUT,), (OTHER,)])
        add("fr_adapter", s, DEFAULT_MAX, finals=finals)
    # simple server accept
    for i in range(n // 2):
        s = gen_stream(rng, DEFAULT_MAX,
                       lambda r: (b"\xee" if r.random() < 0.12 else b"") + rand_body(r, r.randrange(0, 30)),
                       big=rng.random() < 0.1)
        finals = rng.choice([(EOF,), (EOF,), (TIMED_OUT,), (OTHER,)])
        add("fr_accept", s, DEFAULT_MAX, finals=finals)
    # real FSimpleServer on TCP; the peer keeps its end open after the stream
    for i in range(24 if quick else 300):
        s = gen_stream(rng, DEFAULT_MAX,
                       lambda r: (b"\xee" if r.random() < 0.2 else b"") + rand_body(r, r.randrange(0, 30)))
        if len(s) > 4000:
            continue
        ch = chunkings(rng, s, 3)[rng.randrange(3)]
        if not ch:
            ch = []
        q = {"rx": "fr_server", "chunks": [c.hex() for c in ch], "n": 250}
        group += 1
        reqs.append((q, {"kind": "fr_server", "stream": s, "chunks": ch, "maxlen": DEFAULT_MAX, "final": TIMED_OUT,
                         "group": group, "which": None, "reads": None}))
    return reqs


def observation_key(kind, r):
    if kind == "fr_read":
        return ("reads", tuple((o["k"], o.get("data", ""), o["err"], o["rem"]) for o in r.get("reads") or []))
    if kind == "fr_frames":
        return ("frames", tuple(r.get("frames") or []), r.get("end"))
    if kind == "fr_adapter":
        return ("adapter", r.get("calls"), r.get("end"), r.get("closed"))
    return ("accept", tuple(r.get("frames") or []), r.get("end"))


def run(ctx):
    rng = ctx.rng
    quick = ctx.tier == "quick"
    items = generate(rng, quick)
    reqs = [q for q, _ in items]
    metas = [m for _, m in items]
    rc, resps, err = hc.run_lines([os.path.join(vlib.BIN, "vh_c05")], reqs, timeout=1500)
    viol = 0
    if len(resps) < len(reqs):
        ctx.violation("C05 framing: process died (unrecovered panic / fatal error) while receiving",
                      {"request": reqs[len(resps)], "stderr_tail": err[-1500:]})
        viol += 1
        reqs, metas = reqs[:len(resps)], metas[:len(resps)]

    def bad(what, q, m, r, **extra):
        nonlocal viol
        viol += 1
        d = {"entry": m["kind"], "request": q, "stream": m["stream"].hex(), "observed": r}
        d.update(extra)
        ctx.violation("C05 framing: " + what, d)

    # ---- direct oracle ----
    by_group = {}
    for q, m, r in zip(reqs, metas, resps):
        if r.get("code", 0) in (100, 102) or r.get("panic"):
            bad("crash/hang: %s" % r.get("panic"), q, m, r)
            continue
        if r.get("code", 0) == 103:
            raise RuntimeError("harness refused a framing request: %r -> %r" % (q, r))
        kind, maxlen = m["kind"], m["maxlen"]
        frames, fail, deliver = ref_parse(m["stream"], maxlen)
        if kind == "fr_read":
            got = b""
            for o in r.get("reads") or []:
                d = bytes.fromhex(o.get("data", ""))
                got += d
                if o["err"] == 104 or len(d) > o["k"]:
                    bad("Read returned more than asked", q, m, r)
                    break
                if o["k"] > 0 and o["err"] == 0 and not d:
                    bad("Read(len>0) returned (0, nil): a reader looping on it would spin", q, m, r)
                    break
                if o["rem"] > maxlen:
                    bad("remaining frame size %d above the limit %d" % (o["rem"], maxlen), q, m, r)
                    break
            else:
                if not deliver.startswith(got):
                    bad("Read handed out bytes that belong to no frame (or out of order)", q, m, r,
                        delivered=got.hex(), frame_bytes=deliver.hex()[:400])
        elif kind in ("fr_frames", "fr_accept"):
            of = [bytes.fromhex(x) for x in r.get("frames") or []]
            if kind == "fr_frames":
                if r.get("end") == 105:
                    bad("readFrame kept succeeding on a finite stream", q, m, r)
                elif of != frames:
                    bad("frames read differ from the size-prefixed blocks of the stream", q, m, r)
                elif r.get("end") != (7 if fail == "over" else m["final"]):
                    bad("readFrame failed with an unexpected error class", q, m, r)
            else:
                exp, end = [], None
                for f in frames:
                    exp.append(f)
                    if f[:1] == b"\xee":
                        end = 50
                        break
                if end is None:
                    end = 7 if fail == "over" else (0 if m["final"] == EOF else m["final"])
                if of != exp or r.get("end") != end:
                    bad("accept handed the processor other frames, or ended differently, than the stream says",
                        q, m, r, expected_frames=[f.hex() for f in exp], expected_end=end)
                elif r.get("closed") != 1:
                    bad("the server stopped serving the connection without closing it", q, m, r)
        elif kind == "fr_server":
            of = [bytes.fromhex(x) for x in r.get("frames") or []]
            exp, stopped = [], fail == "over"
            for f in frames:
                exp.append(f)
                if f[:1] == b"\xee":
                    stopped = True
                    break
            if of != exp:
                bad("the server processed other frames than the stream holds", q, m, r,
                    expected_frames=[f.hex() for f in exp])
            elif stopped and r.get("closed") != 1:
                bad("the server stopped serving the connection (frame over the limit / processor error) "
                    "but left it open: the peer is neither answered nor disconnected", q, m, r)
            elif not stopped and r.get("closed") != 0:
                bad("the server closed a connection whose stream is well-formed so far", q, m, r)
        elif kind == "fr_adapter":
            if r.get("closed") != 1:
                bad("connection neither closed nor reported after the stream ended", q, m, r)
        if kind not in ("fr_read", "fr_server"):      # a single Read may legitimately return fewer bytes when the chunks are smaller
            by_group.setdefault((m["group"], m["final"]), []).append((q, m, r))
    for (g, final), lst in by_group.items():
        keys = {observation_key(m["kind"], r) for _, m, r in lst}
        if len(keys) > 1:
            q, m, r = lst[0]
            bad("the same byte stream cut into different chunks gave different results", q, m, r,
                others=[{"request": q2, "observed": r2} for q2, _, r2 in lst[1:]])
    # ---- judge ----
    cases = []
    for q, m, r in zip(reqs, metas, resps):
        ch = [bytes(c) for c in m["chunks"]]
        if m["kind"] == "fr_read":
            cases.append([20, m["maxlen"], ch, m["final"],
                          [[o["k"], bytes.fromhex(o.get("data", "")), o["err"], o["rem"]] for o in r.get("reads") or []]])
        elif m["kind"] == "fr_frames":
            cases.append([21, m["maxlen"], ch, m["final"], [bytes.fromhex(x) for x in r.get("frames") or []],
                          r.get("end", -1)])
        elif m["kind"] == "fr_adapter":
            cases.append([22, ch, m["final"], r.get("calls", -1), r.get("end", -1)])
        elif m["kind"] == "fr_server":
            cases.append([24, ch, r.get("closed", -1), [bytes.fromhex(x) for x in r.get("frames") or []]])
        else:
            cases.append([23, m["maxlen"], ch, m["final"], [bytes.fromhex(x) for x in r.get("frames") or []],
                          r.get("end", -1)])
    verdicts = vlib.run_judge(ctx.rundir, "JReceiversFraming", "judge", cases, name="jf")
    mism = 0
    for (q, m, r), v in zip(zip(reqs, metas, resps), verdicts):
        if v < 0:
            mism += 1
            ctx.violation("C05 correspondence: framing model and implementation disagree",
                          {"entry": m["kind"], "request": q, "stream": m["stream"].hex(), "observed": r,
                           "no_failing_input_found": True,
                           "broken": "correspondence JReceiversFraming.judge / Model/ReceiversFraming.v "
                                     "(theorems c05_framed_read_total, c05_*_chunking_independent)"})
    hist = {}
    for m in metas:
        hist[m["kind"]] = hist.get(m["kind"], 0) + 1
    return {
        "evaluations": len(metas),
        "distinct": len({(m["kind"], m["stream"], tuple(m["chunks"]), m["final"], tuple(m["reads"] or ())) for m in metas}),
        "streams": len({(m["kind"], m["stream"]) for m in metas}),
        "validated": sum(1 for v in verdicts if v >= 0),
        "mismatches": mism,
        "oracle_failures": viol,
        "tags": sorted(set(v for v in verdicts if v >= 0)),
        "hist": hist,
        "samples": [{"request": q, "observed": r} for q, r in list(zip(reqs, resps))[::max(1, len(reqs) // 3)][:3]],
    }
