"""C15 - transport failure is detected, reported once and recoverable, repeatedly.

Drives the real adapter transport and monitor runner (harness/cmd/vh_c15) through generated
histories, applies the property directly to what was observed (oracle, no model), and has
the Coq judge (Judge/JLifecycle.v) replay every observed history on Model/Lifecycle.v."""
import json
import os
import struct
import subprocess
import threading

import vlib

HARNESS_BINS = ["vh_c15"]

MAX_FRAME = 16384000
OPS = {"open": 1, "close": 2, "isopen": 3, "feed": 4, "readerr": 5, "loop": 6, "monrecv": 7, "mon": 8}

SIG_F13 = {"finding": "first-reopen-wait-above-maxwait"}
SIG_EOF = {"finding": "eof-inside-frame-reported-as-clean-close"}


# ------------------------------------------------------------------------------------------
# frames

def be32(n):
    return struct.pack(">I", n)


def header_block(pairs):
    body = b"".join(be32(len(k)) + k + be32(len(v)) + v for k, v in pairs)
    return b"\x00" + be32(len(body)) + body


def good_frame(rng, opid=None):
    opid = str(rng.choice([0, 1, 7, 42, 2**32, 2**64 - 1]) if opid is None else opid).encode()
    pairs = [(b"_opid", opid)]
    if rng.random() < 0.5:
        pairs.insert(rng.randrange(2), (b"_cid", bytes(rng.randrange(97, 123) for _ in range(rng.randrange(0, 6)))))
    payload = bytes(rng.randrange(256) for _ in range(rng.choice([0, 1, 3, 9, 30])))
    return header_block(pairs) + payload


def bad_frame(rng):
    k = rng.randrange(7)
    if k == 0:
        return b"\x01" + header_block([(b"_opid", b"1")])[1:]        # unsupported version
    if k == 1:
        return header_block([(b"_cid", b"x")])                         # no op id
    if k == 2:
        return header_block([(b"_opid", b"12a")])
    if k == 3:
        b = header_block([(b"_opid", b"1")])
        return b[:rng.randrange(1, len(b))]                             # truncated header block
    if k == 4:
        return b""                                                      # empty frame
    if k == 5:
        return header_block([(b"_opid", str(2**64).encode())])          # out of range
    return header_block([(b"_opid", b"")])


def wire(frame):
    return be32(len(frame)) + frame


def frame_is_good(frame):
    """reference reading of registry.Execute's verdict: headers parse and _opid is a uint64"""
    if len(frame) < 5 or frame[0] != 0:
        return False
    size = struct.unpack(">I", frame[1:5])[0]
    if size > len(frame) - 5:
        return False
    i, end, hdr = 5, 5 + size, {}
    while i < end:
        if end - i < 4:
            return False
        n = struct.unpack(">I", frame[i:i + 4])[0]
        i += 4
        if n > end - i:
            return False
        k = frame[i:i + n]
        i += n
        if end - i < 4:
            return False
        n = struct.unpack(">I", frame[i:i + 4])[0]
        i += 4
        if n > end - i:
            return False
        hdr[k] = frame[i:i + n]
        i += n
    v = hdr.get(b"_opid", b"")
    return len(v) > 0 and all(48 <= c <= 57 for c in v) and int(v) < 2**64


def position(stream):
    """where a byte stream stands relative to its frames:
    ('boundary'|'header'|'body'|'badsize'|'badframe', frames_executed)"""
    pos, n = 0, 0
    while len(stream) - pos >= 4:
        size = struct.unpack(">I", stream[pos:pos + 4])[0]
        if size > MAX_FRAME:
            return "badsize", n
        if len(stream) - pos < 4 + size:
            return "body", n
        frame = stream[pos + 4:pos + 4 + size]
        pos += 4 + size
        n += 1
        if not frame_is_good(frame):
            return "badframe", n
    return ("boundary" if len(stream) == pos else "header"), n


def chunks_of(rng, data):
    out, i = [], 0
    while i < len(data):
        n = rng.choice([1, 2, 3, 4, 5, 8, 13, 40, 200, 5000])
        out.append(data[i:i + n])
        i += n
    return out


# ------------------------------------------------------------------------------------------
# histories

def rand_policy(rng):
    ms = 1000000
    return {"max": rng.choice([0, 1, 1, 2, 3, 5]),
            "init_ns": rng.choice([0, 1, 1000, ms, 2 * ms, 1000 * ms, 2000 * ms, 7000 * ms]),
            "max_ns": rng.choice([0, 1, ms, 3 * ms, 2000 * ms, 5000 * ms, 60000 * ms])}


def failure_events(rng):
    """one way for the inbound stream to end or fail"""
    r = rng.random()
    if r < 0.55:
        return [{"op": "readerr", "kind": rng.randrange(4), "tag": rng.randrange(1, 90)}]
    if r < 0.75:
        return [{"op": "feed", "hex": wire(bad_frame(rng)).hex()}]
    if r < 0.85:
        return [{"op": "feed", "hex": be32(rng.choice([MAX_FRAME + 1, 2**31, 2**32 - 1])).hex()}]
    return [{"op": "close"}]


def traffic(rng):
    ev = []
    for _ in range(rng.randrange(0, 3)):
        data = b"".join(wire(good_frame(rng)) for _ in range(rng.randrange(1, 3)))
        if rng.random() < 0.4:
            data = data[:rng.randrange(0, len(data) + 1)]
        for c in chunks_of(rng, data):
            ev.append({"op": "feed", "hex": c.hex()})
    return ev


def gen_cut_cases(rng, nframes, kinds, monitor_every):
    """a multi-frame stream cut at every byte offset, for each way of ending it"""
    frames = [good_frame(rng, opid=i + 1) for i in range(nframes)]
    stream = b"".join(wire(f) for f in frames)
    cases = []
    for off in range(len(stream) + 1):
        for kind in kinds:
            ev = [{"op": "open"}]
            for c in chunks_of(rng, stream[:off]):
                ev.append({"op": "feed", "hex": c.hex()})
            ev.append({"op": "readerr", "kind": kind, "tag": 1 + off % 80})
            ev.append({"op": "isopen"})
            # recovery by hand, then a second failure at another point
            ev += [{"op": "open"}, {"op": "isopen"}]
            off2 = (off * 7 + 3) % (len(stream) + 1)
            ev.append({"op": "feed", "hex": stream[:off2].hex()})
            ev.append({"op": "readerr", "kind": (kind + 1) % 4, "tag": 2})
            ev += [{"op": "close"}, {"op": "isopen"}]
            q = {"monitor": len(cases) % monitor_every == 0, "auto": True, "events": ev, "family": "cut"}
            q.update(rand_policy(rng))
            cases.append(q)
    return cases


def gen_history(rng, maxlen, auto):
    ev = []
    monitor = rng.random() < 0.6
    q = {"monitor": monitor, "auto": auto, "preopen": rng.random() < 0.15, "family": "history" if auto else "schedule"}
    q.update(rand_policy(rng))
    if rng.random() < 0.25:
        ev.append({"op": rng.choice(["close", "isopen", "readerr", "loop", "mon"])})
    rounds = rng.randrange(1, 5)
    for _ in range(rounds):
        if rng.random() < 0.3:
            ev.append({"op": "failopens", "n": rng.randrange(0, 4)})
        if rng.random() < 0.15:
            ev.append({"op": "failcloses", "n": rng.randrange(1, 3)})
        ev.append({"op": "open"})
        if rng.random() < 0.2:
            ev.append({"op": "open"})
        ev += traffic(rng)
        if rng.random() < 0.3:
            ev.append({"op": "isopen"})
        ev += failure_events(rng)
        if not auto:
            # explicit schedule: user operations race with the read loop's and the monitor's steps
            pool = [{"op": "loop"}, {"op": "loop"}, {"op": "close"}, {"op": "open"}, {"op": "mon"}, {"op": "isopen"},
                    {"op": "loop", "g": -1}, {"op": "readerr", "kind": rng.randrange(4), "tag": 5}]
            for _ in range(rng.randrange(1, 7)):
                ev.append(dict(rng.choice(pool)))
        if rng.random() < 0.3:
            ev.append({"op": rng.choice(["close", "isopen", "open"])})
    if not auto:
        ev += [{"op": "loop", "g": -1}, {"op": "loop", "g": -1}, {"op": "loop"}, {"op": "loop"}, {"op": "mon"}, {"op": "mon"}]
    # bound the number of user-visible events
    keep, n = [], 0
    for e in ev:
        if e["op"] not in ("failopens", "failcloses"):
            n += 1
        if n > maxlen:
            break
        keep.append(e)
    q["events"] = keep
    return q


def gen_episodes(rng, n):
    """several unclean closes in a row on one transport and monitor, each followed by reopen attempts of which the
    first few fail: the reopen policy (attempt count, waits) holds per episode, whatever happened in earlier ones"""
    cases = []
    for _ in range(n):
        maxa = rng.choice([2, 3, 3, 5])
        ev = [{"op": "open"}, {"op": "isopen"}]
        for ep in range(rng.randrange(2, 5)):
            # fewer failures than the budget: the episode ends in a reopen (the first episode uses the whole budget but one)
            ev.append({"op": "failopens", "n": (maxa - 1) if ep == 0 else rng.randrange(0, maxa)})
            ev += traffic(rng)
            ev.append({"op": "readerr", "kind": rng.choice([1, 2, 3]), "tag": 40 + ep})
            ev.append({"op": "isopen"})
        ev += [{"op": "close"}, {"op": "isopen"}]
        q = {"monitor": True, "auto": True, "events": ev, "family": "episodes"}
        q.update(rand_policy(rng))
        q["max"] = maxa
        # waits that double across the cap: MaxWait is not InitialWait times a power of two
        q["init_ns"], q["max_ns"] = rng.choice([(1000, 3000), (2000, 5000), (1, 3), (1000, 2500), (0, 1000), (1000, 1000), (3, 7)])
        cases.append(q)
    return cases


def gen_kth_io(rng, kmax):
    """the k-th operation on the underlying transport fails, for every k"""
    cases = []
    frames = [good_frame(rng, opid=i + 1) for i in range(3)]
    data = b"".join(wire(f) for f in frames)
    chunks = [data[i:i + 9] for i in range(0, len(data), 9)]
    # underlying operations in order: Open, Read x len(chunks), ..., Close
    for k in range(min(kmax, len(chunks) + 3)):
        for kind in (0, 1, 2, 3):
            ev = []
            if k == 0:
                ev.append({"op": "failopens", "n": 1})
                ev += [{"op": "open"}, {"op": "isopen"}, {"op": "open"}]
            else:
                ev.append({"op": "open"})
            for i, c in enumerate(chunks):
                if i + 1 == k:
                    ev.append({"op": "readerr", "kind": kind, "tag": k})
                    break
                ev.append({"op": "feed", "hex": c.hex()})
            if k == len(chunks) + 1:
                ev.append({"op": "readerr", "kind": kind, "tag": k})
            if k == len(chunks) + 2:
                ev += [{"op": "failcloses", "n": 1}, {"op": "close"}, {"op": "isopen"}, {"op": "close"}]
            ev += [{"op": "isopen"}, {"op": "open"}, {"op": "readerr", "kind": 2, "tag": 77}, {"op": "isopen"}, {"op": "close"}]
            q = {"monitor": kind % 2 == 0, "auto": True, "events": ev, "family": "kth-io"}
            q.update(rand_policy(rng))
            cases.append(q)
    return cases


# ------------------------------------------------------------------------------------------
# running the harness

def run_harness(reqs, jobs):
    exe = os.path.join(vlib.BIN, "vh_c15")
    parts = [reqs[i::jobs] for i in range(jobs)]
    outs = [None] * jobs

    def work(i):
        pending = list(parts[i])
        got = []
        # a history that crashes the process (e.g. a panic in a read loop) takes the process down:
        # restart behind it, the history itself stays unanswered and is reported by the oracle
        for _ in range(40):
            if not pending:
                break
            inp = ("\n".join(json.dumps(r) for r in pending) + "\n").encode()
            try:
                p = subprocess.run([exe], input=inp, stdout=subprocess.PIPE, stderr=subprocess.PIPE,
                                   timeout=120 + 3 * len(pending))
                out, err = p.stdout.decode("utf-8", "replace"), p.stderr.decode("utf-8", "replace")
            except subprocess.TimeoutExpired as e:
                out, err = (e.stdout or b"").decode("utf-8", "replace"), "timeout"
            lines = [l for l in out.split("\n") if l.strip()]
            n = 0
            for l in lines:
                try:
                    json.loads(l)
                    got.append(l)
                    n += 1
                except ValueError:
                    break
            if n >= len(pending):
                break
            crashed = pending[n]
            tail = [l for l in err.split("\n") if l.startswith(("panic:", "fatal error:"))][:2]
            got.append(json.dumps({"id": crashed["id"], "steps": [], "died": " ".join(tail) or err[-300:]}))
            pending = pending[n + 1:]
        outs[i] = "\n".join(got)

    th = [threading.Thread(target=work, args=(i,)) for i in range(jobs) if parts[i]]
    for t in th:
        t.start()
    for t in th:
        t.join()
    by_id = {}
    for o in outs:
        for line in (o or "").split("\n"):
            if line.strip():
                try:
                    r = json.loads(line)
                    by_id[r["id"]] = r
                except ValueError:
                    pass
    return [by_id.get(r["id"]) for r in reqs]


# ------------------------------------------------------------------------------------------
# direct oracle: the property restated on the observations alone

def oracle(q, r):
    """returns a list of (what, signature) - empty when the property holds on this history"""
    bad = []
    if r is None:
        return [("the harness produced no answer for this history", None)]
    if r.get("died") is not None:
        return [("the process running the transport died during this history: " + r["died"], None)]
    steps = r["steps"]
    if r.get("aborted"):
        bad.append(("a call or a goroutine did not come to rest within 1 s: " + r["aborted"], None))
    is_open = False          # internal flag as last observed
    fed = {}                 # generation -> bytes fed
    ended = {}               # generation -> list of reasons its stream ended / it was closed
    pubs = {}                # generation -> [values], closed flag
    closes_seq = []          # causes of closes, in order
    recv_seq = []            # causes the monitor was told, in order
    mon_alive = q.get("monitor", False)
    episode = None           # reopen episode: dict(attempts, last_wait)
    polite = True
    mon_parked = False
    gen = 0
    for s in steps:
        e, op = s["ev"], s["ev"]["op"]
        code = s.get("code", 0)
        if code == -1:
            bad.append(("%s did not return within 1 s" % op, None))
        if op == "open":
            if (code == 1) != is_open:
                bad.append(("Open returned code %d while the transport was %s" % (code, "open" if is_open else "closed"), None))
            if mon_alive and (mon_parked or (closes_seq[len(recv_seq):] and True)):
                polite = False
        if op == "close":
            if (code == 2) != (not is_open):
                bad.append(("Close returned code %d while the transport was %s" % (code, "open" if is_open else "closed"), None))
            if code == 0:
                ended.setdefault(gen, []).append(("close",))
        if op == "feed" and s.get("enabled"):
            fed[e["g"]] = fed.get(e["g"], b"") + bytes.fromhex(e.get("hex", ""))
            if s.get("status") in (1, 4):
                ended.setdefault(e["g"], []).append(("badsize",) if s["status"] == 1 else ("badframe",))
        if op == "readerr" and s.get("enabled"):
            where, _ = position(fed.get(e["g"], b""))
            ended.setdefault(e["g"], []).append(("readerr", e.get("kind", 0), e.get("tag", 0), where))
        p = s.get("pub") or []
        for i in range(0, len(p), 3):
            g, c, closed = p[i:i + 3]
            v = pubs.setdefault(g, {"vals": [], "closed": False})
            if closed:
                if v["closed"]:
                    bad.append(("Closed() channel of generation %d closed twice" % g, None))
                v["closed"] = True
                closes_seq.append(v["vals"][-1] if v["vals"] else None)
            else:
                if v["closed"]:
                    bad.append(("value after close on Closed() of generation %d" % g, None))
                v["vals"].append(c)
        cb = s.get("cb")
        if cb:
            if not cb.get("pass_ok", True):
                bad.append(("the runner did not hand the previous wait back to OnReopenFailed", None))
            if cb["kind"] in (1, 2):
                recv_seq.append(cb["cause"])
                if cb["kind"] == 1 and cb["cause"] != 0:
                    bad.append(("OnClosedCleanly for a non-nil cause", None))
                if cb["kind"] == 1:
                    mon_alive = False
                else:
                    if cb["reopen"] != (q["max"] > 0):
                        bad.append(("OnClosedUncleanly reopen=%s with MaxReopenAttempts=%d" % (cb["reopen"], q["max"]), None))
                    if cb["reopen"] and cb["wait"] > q["max_ns"]:
                        bad.append(("first reopen wait %d ns is above MaxWait %d ns" % (cb["wait"], q["max_ns"]), SIG_F13))
                    episode = {"attempts": 0, "wait": cb["wait"]} if cb["reopen"] else None
                    mon_parked = bool(cb["reopen"])
                    if not cb["reopen"]:
                        mon_alive = False
            elif episode is not None:
                episode["attempts"] += 1
                if episode["attempts"] > q["max"]:
                    bad.append(("reopen attempt %d with MaxReopenAttempts=%d" % (episode["attempts"], q["max"]), None))
                if cb["kind"] == 3:
                    if cb["prev"] != episode["attempts"] or cb["prevwait"] != episode["wait"]:
                        bad.append(("OnReopenFailed(%d, %d) after %d attempts and a wait of %d" %
                                    (cb["prev"], cb["prevwait"], episode["attempts"], episode["wait"]), None))
                    want_reopen = cb["prev"] < q["max"]
                    if cb["reopen"] != want_reopen:
                        bad.append(("reopen=%s after %d of %d attempts" % (cb["reopen"], cb["prev"], q["max"]), None))
                    if cb["reopen"]:
                        if cb["wait"] > q["max_ns"]:
                            bad.append(("reopen wait %d ns above MaxWait %d ns" % (cb["wait"], q["max_ns"]), None))
                        if cb["wait"] != min(2 * cb["prevwait"], q["max_ns"]):
                            bad.append(("wait %d is not min(2*%d, MaxWait)" % (cb["wait"], cb["prevwait"]), None))
                        episode["wait"] = cb["wait"]
                    else:
                        episode, mon_alive, mon_parked = None, False, False
                    mon_parked = bool(cb["reopen"])
                else:
                    if s.get("under") == 2:
                        bad.append(("OnReopenSucceeded although the underlying Open failed", None))
                    episode, mon_parked = None, False
            else:
                bad.append(("reopen callback outside a reopen episode", None))
        if op == "mon" and s.get("enabled") and not cb:
            bad.append(("the monitor runner made a step without the expected callback", None))
        if s.get("note", "").startswith("monitor-missed"):
            bad.append(("close not followed by a monitor callback although the runner was idle", None))
        sn = s.get("snap")
        if sn:
            if op == "isopen" and code != sn["isopen_pub"]:
                bad.append(("IsOpen() changed without an event", None))
            if op == "mon" and cb and cb["kind"] == 4 and sn["isopen_int"] != 1:
                bad.append(("OnReopenSucceeded but the transport is not open", None))
            is_open = sn["isopen_int"] == 1
            gen = sn["gen"]
            v = pubs.get(gen, {"vals": [], "closed": False})
            if is_open and (v["vals"] or v["closed"]):
                bad.append(("transport open but its Closed() channel already fired", None))
            if sn["isopen_int"] == 0 and gen >= 1 and not (len(v["vals"]) == 1 and v["closed"]):
                bad.append(("transport closed but Closed() of generation %d holds %r closed=%s" % (gen, v["vals"], v["closed"]), None))
    # exactly one cause per ended generation, at most one ever
    for g, v in pubs.items():
        if len(v["vals"]) > 1 or (v["closed"] and len(v["vals"]) != 1):
            bad.append(("generation %d published %r (closed=%s): not exactly one cause" % (g, v["vals"], v["closed"]), None))
        for c in v["vals"]:
            why = ended.get(g, [])
            user_close = any(w[0] == "close" for w in why)
            eofs = [w for w in why if w[0] == "readerr" and w[1] in (0, 1)]
            if c == 0:
                if not user_close and not eofs:
                    bad.append(("generation %d closed with a nil cause without Close() and without end of stream" % g, None))
                elif not user_close and all(w[3] != "boundary" for w in eofs):
                    bad.append(("generation %d: the stream ended inside a frame (%s) and the close cause is nil (clean)" %
                                (g, eofs[0][3]), SIG_EOF))
            elif c >= 1000:
                tag = (c - 1000) // 10
                if not any(w[0] == "readerr" and w[1] in (2, 3) and w[2] == tag for w in why):
                    bad.append(("generation %d closed with the error of another read (tag %d)" % (g, tag), None))
            elif c == 6:
                # the read loop's own "end of stream inside a frame": only for an end of file met
                # while part of a frame was pending
                if not any(w[3] != "boundary" for w in eofs):
                    bad.append(("generation %d closed with 'end of stream inside a frame' but no end of file arrived inside a frame" % g, None))
            elif c == 9:
                bad.append(("generation %d closed with an unidentified cause" % g, None))
            elif c == 5:
                bad.append(("generation %d closed with the error its own Close() caused in the read loop" % g, None))
    # a failure that was given the chance to be processed (eager schedule) closes the transport
    if q.get("auto") and not r.get("aborted"):
        for g, why in ended.items():
            v = pubs.get(g)
            failcloses = any(e["op"] == "failcloses" for e in q["events"])
            if not failcloses and not (v and v["closed"] and len(v["vals"]) == 1):
                bad.append(("generation %d ended (%r) but nothing was published on Closed()" % (g, why[0]), None))
        # monitor told about every close, in order, while it lives (the user never reopens under its feet here)
        if q.get("monitor"):
            told = recv_seq
            want = closes_seq[:len(told)]
            if told != want:
                bad.append(("monitor was told %r for closes %r" % (told, closes_seq), None))
            if mon_alive and len(told) < len(closes_seq):
                bad.append(("monitor alive but not told about close(s) %r" % closes_seq[len(told):], None))
    return bad


# ------------------------------------------------------------------------------------------
# judge input

def judge_case(q, r):
    steps = []
    for s in r["steps"]:
        e = s["ev"]
        op = OPS[e["op"]]
        a = b = c = 0
        data = b""
        en = 1 if s.get("enabled") else 0
        obs = []
        cb = s.get("cb")
        pub = s.get("pub") or []
        pubinfo = []
        for i in range(0, len(pub), 3):
            if pub[i + 2] == 0:
                pubinfo += [pub[i], pub[i + 1]]
        if op == 1:
            a = s.get("under", 0)
            obs = [s["code"]]
        elif op == 2:
            a = s.get("under", 0)
            obs = [s["code"]] + pubinfo
        elif op == 3:
            obs = [s["code"]]
        elif op == 4:
            a, data = e.get("g", 0), bytes.fromhex(e.get("hex", ""))
            ex = s.get("execs") or []
            obs = [s.get("status", 0), len(ex)] + [x for p in ex for x in p]
        elif op == 5:
            a, b, c = e.get("g", 0), e.get("kind", 0), e.get("tag", 0)
            obs = [s.get("status", 0)]
        elif op == 6:
            a, b = e.get("g", 0), s.get("under", 0)
            obs = [s.get("status", 0)] + pubinfo
        elif op == 7:
            obs = [cb["kind"], cb["cause"], 1 if cb["reopen"] else 0, cb["wait"]] if cb else [-9]
        elif op == 8:
            a = s.get("under", 0)
            if cb:
                obs = [cb["kind"], cb["prev"], cb["prevwait"], 1 if cb["reopen"] else 0, cb["wait"]]
            elif en:
                obs = [-9]
        sn = s.get("snap")
        snap = [sn["isopen_int"], sn["isopen_pub"], sn["tokens"], sn["gen"]] if sn else []
        steps.append([op, a, b, c, data, en, obs, snap])
    return [1 if q.get("monitor") else 0, 1 if q.get("preopen") else 0, q["max"], q["init_ns"], q["max_ns"], steps]


def small(q, r):
    rr = dict(r) if r else None
    if rr and len(rr.get("steps", [])) > 40:
        rr["steps"] = rr["steps"][:40] + [{"truncated": len(r["steps"]) - 40}]
    return {"request": q, "observed": rr}


# ------------------------------------------------------------------------------------------

def run(ctx, br):
    quick = ctx.tier == "quick"
    rng = ctx.rng
    jobs = max(1, min(8, int(os.environ.get("VERIF_JOBS", "4"))))
    rep = getattr(ctx, "replaying", None)
    if rep:
        reqs = [rep["replay"]["request"]]
    else:
        reqs = []
        reqs += gen_cut_cases(rng, 3, (0, 1) if quick else (0, 1, 2, 3), 3)
        if not quick:
            reqs += gen_cut_cases(rng, 4, (0, 1, 2, 3), 2)
        reqs += gen_kth_io(rng, 12)
        reqs += gen_episodes(rng, 12 if quick else 150)
        n_hist, n_sched = (500, 400) if quick else (6000, 5000)
        reqs += [gen_history(rng, 12, True) for _ in range(n_hist)]
        reqs += [gen_history(rng, 16, False) for _ in range(n_sched)]
    for i, q in enumerate(reqs):
        q["id"] = i
    resps = run_harness(reqs, jobs)
    oracle_fail = 0
    oracle_known = 0
    known_sigs = [k.get("signature") for k in ctx.known_findings]
    for q, r in zip(reqs, resps):
        for what, sig in oracle(q, r)[:2]:
            if sig is not None and sig in known_sigs:
                oracle_known += 1
            else:
                oracle_fail += 1
            ctx.violation("C15 oracle: " + what, small(q, r), signature=sig)
    idx = [i for i, r in enumerate(resps) if r is not None and r.get("died") is None]
    verdicts = vlib.run_judge(ctx.rundir, "JLifecycle", "judge", [judge_case(reqs[i], resps[i]) for i in idx], shard=600000)
    mism = 0
    masks = {}
    for i, v in zip(idx, verdicts):
        if v < 0:
            mism += 1
            if not oracle(reqs[i], resps[i]):
                repd = small(reqs[i], resps[i])
                repd["no_failing_input_found"] = True
                repd["broken"] = "correspondence JLifecycle.judge (Model/Lifecycle.v, step Fixed, disagrees with the implementation on this history)"
                ctx.violation("C15 correspondence: model and implementation disagree", repd)
        else:
            masks[v] = masks.get(v, 0) + 1
    bits = {}
    for m, n in masks.items():
        for b in range(30):
            if m >> b & 1:
                bits[b] = bits.get(b, 0) + n
    hist = {}
    for q in reqs:
        hist[q.get("family", "replay")] = hist.get(q.get("family", "replay"), 0) + 1
    lens = [len(r["steps"]) for r in resps if r]
    gens = [max([s["snap"]["gen"] for s in r["steps"] if s.get("snap")] or [0]) for r in resps if r]
    nontrivial = {json.dumps([[s["ev"], s.get("code"), s.get("status"), s.get("pub")] for s in r["steps"]], sort_keys=True)
                  for q, r in zip(reqs, resps) if r and any(s.get("pub") for s in r["steps"])}
    ctx.assumptions += [
        "underlying TTransport is the harness's scripted in-memory transport: Close() makes a blocked Read fail, Read returns either bytes or an error (never both)",
        "close() is atomic with respect to the read loop's token check (differs only if the underlying Close fails while a read loop sits between its error and the check)",
        "waits are observed as returned by BaseFTransportMonitor; the runner really sleeps min(wait, 300us)",
        "one monitor set before the first Open; no Request/Oneway traffic during the histories",
    ]
    return {
        "evaluations": len(reqs),
        "distinct_nontrivial": len(nontrivial),
        "rule": "histories over {Open, Close, IsOpen, feed chunk, read error (io.EOF | END_OF_FILE exception | other raw | other exception), "
                "bad frame, oversize frame, underlying Open/Close failures, read-loop steps, monitor steps}; families: 3/4-frame stream cut at "
                "every byte offset then reopened and failed again; k-th underlying I/O operation fails; random eager histories (<= 12 user events, "
                "1-4 open/fail rounds); random explicit schedules racing user calls with read-loop and monitor steps. non-trivial = at least one "
                "close was published; distinct by the full observed step sequence",
        "traces_validated_against_impl": len([v for v in verdicts if v >= 0]),
        "steps_validated": sum(lens),
        "judge_mismatches": mism,
        "oracle_failures": oracle_fail,
        "oracle_hits_of_known_findings": oracle_known,
        "model_branches_hit": {str(k): v for k, v in sorted(bits.items())},
        "distinct_branch_masks": len(masks),
        "input_histogram": hist,
        "max_generation_reached": max(gens) if gens else 0,
        "histories_with_2plus_failures": len([g for g in gens if g >= 2]),
        "samples": [small(reqs[i], resps[i]) for i in (0, len(reqs) // 2, len(reqs) - 1) if resps[i]][:3],
    }
