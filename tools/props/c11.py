"""C11 — the compiler is total: valid IDL yields valid code, bad input a diagnostic.

Two halves:
  (A) pointwise correspondence of the compiler helpers with Model/CompilerTotal.v (casing helpers,
      -gen parsing, typedef resolution / validation / classification) through harness vh_c11 and
      the judge JCompilerTotal;
  (B) exploration of the real `frugal` binary: seeded valid programs x 8 targets x option subsets
      (exit status, output, wall time, well-formedness of every emitted file) and invalid /
      mutated / arbitrary texts (non-zero exit, a message, no crash, no hang).
"""
import ast
import concurrent.futures
import html.parser
import json
import os
import re
import shutil
import subprocess
import time

import vlib
from props import c11_idlgen as G
from props import c11_validate

HARNESS_BINS = ["vh_c11"]
NEEDS_FRUGAL = True

FRUGAL = os.path.join(vlib.BIN, "frugal")
VH = os.path.join(vlib.BIN, "vh_c11")
WALL_LIMIT = 5.0          # seconds, "terminates promptly"
CRASH_WORDS = ("panic", "fatal error", "goroutine ", "runtime error", "interface conversion",
               "invalid memory address", "stack overflow", "SIGSEGV")


def hx(b):
    return (b if isinstance(b, bytes) else b.encode("latin1")).hex()


# ------------------------------------------------------------------------------------------------
# harness plumbing: the process can die (a stack overflow cannot be recovered), which is an
# observation, not an infrastructure fault

def run_harness(reqs, timeout=600):
    out = [None] * len(reqs)
    start = 0
    while start < len(reqs):
        data = "\n".join(json.dumps(r) for r in reqs[start:]).encode()
        try:
            p = subprocess.run([VH], input=data, capture_output=True, timeout=timeout)
            rc, so, se = p.returncode, p.stdout, p.stderr
        except subprocess.TimeoutExpired as e:
            rc, so, se = 124, e.stdout or b"", (e.stderr or b"") + b"\nTIMEOUT"
        lines = [l for l in so.decode("utf8", "replace").split("\n") if l.strip()]
        n = 0
        for l in lines:
            try:
                out[start + n] = json.loads(l)
            except ValueError:
                break
            n += 1
            if start + n >= len(reqs):
                break
        start += n
        if start < len(reqs):
            # the request after the last answer killed (or wedged) the process
            out[start] = {"code": 104, "died": se.decode("utf8", "replace")[-1500:], "rc": rc}
            start += 1
    return out


# ------------------------------------------------------------------------------------------------
# (A1) casing helpers

FN = {"go_snake": 1, "go_title": 2, "go_title_svc": 3, "java_const": 4, "dart_file": 5, "dart_const": 6,
      "dart_field": 7, "dart_lcfirst": 8, "parser_lcfirst": 9}
IDENT_START = "abcdefghijklmnopqrstuvwxyzABCDEFGHIJKLMNOPQRSTUVWXYZ_"
IDENT_REST = IDENT_START + "0123456789._"
PIECES = ["id", "ID", "Id", "url", "URL", "http", "HTTPS", "utf8", "New", "Args", "Result", "new", "args", "result",
          "_", "__", ".", "a", "B", "foo", "Bar", "X9", "api", "vm", "ttl", "uuid", "Uid", "ip"]


def is_identifier(s):
    return len(s) > 0 and s[0] in IDENT_START and all(c in IDENT_REST for c in s)


def rand_name(rng):
    r = rng.random()
    if r < 0.55:
        return "".join(rng.choice(PIECES) + rng.choice(["", "_", "", "__", "x"]) for _ in range(rng.randrange(0, 6)))
    if r < 0.85:
        n = rng.randrange(0, 14)
        return "".join(rng.choice(IDENT_REST) for _ in range(n))
    return "".join(chr(rng.randrange(1, 128)) for _ in range(rng.randrange(0, 12)))


def casing_cases(rng, n):
    cases = []
    fns = sorted(FN)
    fixed = ["", "_", "__", "_a", "a_", "a__b", "_id", "id_", "ID", "HTTP_SERVER", "newThing", "New", "fooArgs",
             "foo_result", "Result", "a.b_c", "._", "A", "z", "URLPath", "aURL", "x_y_z_"]
    for i in range(n):
        s = fixed[i // len(fns)] if i < len(fixed) * len(fns) else rand_name(rng)
        fn = fns[i % len(fns)]
        s2 = rng.choice(["", "", "Svc", "my_service", "_s", "API"]) if fn == "go_title_svc" else ""
        cases.append({"kind": "casing", "fn": fn, "s": s, "s2": s2,
                      "req": {"op": "casing", "fn": fn, "s": hx(s), "s2": hx(s2)}})
    return cases


def casing_oracle(c, r):
    """the helpers must not panic on identifiers of the grammar"""
    if r.get("code") in (100, 102, 104) and is_identifier(c["s"]) and (c["s2"] == "" or is_identifier(c["s2"])):
        return "helper %s crashed on identifier %r: %s" % (c["fn"], c["s"], r.get("panic") or r.get("died"))
    return None


def casing_tok(c, r):
    return [1, FN[c["fn"]], c["s"].encode("latin1"), c["s2"].encode("latin1"), min(r.get("code", 0), 100) if r.get("code") != 102 else 102,
            bytes.fromhex(r.get("out", ""))]


# ------------------------------------------------------------------------------------------------
# (A2) the -gen parameter

LANG_OPTS = {
    "go": ["thrift_import", "frugal_import", "package_prefix", "async", "use_vendor", "slim",
           "suppress_deprecated_logging", "omit_server_service_generation"],
    "java": ["generated_annotations", "async", "boxed_primitives", "default_unsupported", "use_vendor",
             "suppress_deprecated_logging"],
    "json": ["indent"],
    "dart": ["library_prefix", "use_enums", "use_int64", "use_null_for_unset", "use_vendor", "nullsafe"],
    "py": ["tornado", "asyncio", "package_prefix"],
    "html": ["standalone"],
}


def gen_cases(rng, n):
    cases = []
    fixed = ["", ":", "go", "go:", "go::", "go:async", "go:async,", "go:,async", "go:async=1=2", "go:=", "cobol",
             "cobol:x", ":async", "go:package_prefix", "go:package_prefix=", "go:package_prefix=a/b,package_prefix=c",
             "py:asyncio,tornado", "java:generated_annotations=undated", "GO:async", "go :async", "go:async:slim",
             "html:standalone=yes", "json:indent,indent", "dart:use_vendor=,nullsafe", "py:package_prefix=a.b."]
    for i in range(n):
        if i < len(fixed):
            s = fixed[i]
        else:
            lang = rng.choice(list(LANG_OPTS) + ["", "c", "Go", "python"])
            opts = []
            for _ in range(rng.randrange(0, 5)):
                pool = LANG_OPTS.get(lang, ["async"])
                o = rng.choice(pool) if rng.random() < 0.8 else rng.choice(["bogus", "", "Async", "use-vendor", " slim"])
                r = rng.random()
                if r < 0.4:
                    o += "=" + rng.choice(["", "x", "a/b", "a.b", "1", "x=y", "use"])
                opts.append(o)
            sep = rng.choice([",", ",", ",", ",,", ":"])
            s = lang + ((":" + sep.join(opts)) if (opts or rng.random() < 0.2) else "")
        cases.append({"kind": "gen", "s": s, "req": {"op": "gen", "s": hx(s)}})
    return cases


def gen_oracle(c, r):
    if r.get("code") in (100, 102, 104):
        return "-gen %r crashed the option parser: %s" % (c["s"], r.get("panic") or r.get("died"))
    if r.get("code") == 0:
        lang = bytes.fromhex(r.get("lang", "")).decode("latin1")
        if lang not in LANG_OPTS:
            return "-gen %r accepted with unknown language %r" % (c["s"], lang)
        for k, _ in r.get("opts") or []:
            if bytes.fromhex(k).decode("latin1") not in LANG_OPTS[lang]:
                return "-gen %r accepted with unknown option" % c["s"]
    return None


def gen_tok(c, r):
    return [2, c["s"].encode("latin1"), r.get("code", 0), bytes.fromhex(r.get("lang", "")),
            [[bytes.fromhex(k), bytes.fromhex(v)] for k, v in (r.get("opts") or [])]]


# ------------------------------------------------------------------------------------------------
# (A3) typedef resolution, validation, classification

TYPE_ERR = ("Invalid alias", "Invalid type", "Invalid return type", "Invalid argument type",
            "Invalid exception type", "Invalid operation type", "Circular typedef")


def ty_tok(t):
    if t is None:
        return 0
    return [bytes.fromhex(t[0]), ty_tok(t[1]), ty_tok(t[2])]


def tree_tok(f):
    # "Invalid exception type X for S.m: not an exception" is not a failure of isValidType
    vclass = 0 if f["valid"] else (1 if f["verr"].startswith(TYPE_ERR) and not f["verr"].endswith("not an exception") else 2)
    return [[[bytes.fromhex(n), ty_tok(t)] for n, t in f["typedefs"]],
            [bytes.fromhex(x) for x in f["structs"]], [bytes.fromhex(x) for x in f["unions"]],
            [bytes.fromhex(x) for x in f["exceptions"]], [bytes.fromhex(x) for x in f["enums"]],
            [ty_tok(t) for t in f["uses"]],
            [[bytes.fromhex(i["name"]), tree_tok(i["file"])] for i in f["incs"]],
            vclass]


def obs_pair(o, key="b"):
    code = o.get("code", 0)
    if key == "b":
        return [code, 1 if o.get("b") else 0]
    return [code, int(o.get("s") or 0)]


def query_tok(q):
    u = q["underlying"]
    return [[bytes.fromhex(p) for p in q["path"]], ty_tok(q["ty"]), 1 if q["valid"].get("b") else 0,
            u.get("code", 0), ty_tok(u.get("ty"))] + obs_pair(q["is_enum"]) + obs_pair(q["is_struct"]) + \
        obs_pair(q["is_union"]) + obs_pair(q["go_enum"], "s")


def all_files(f):
    yield f
    for i in f["incs"]:
        yield from all_files(i["file"])


def unhex_ty(t):
    if t is None:
        return None
    n = bytes.fromhex(t[0]).decode("latin1")
    if n == "map":
        return "map<%s,%s>" % (unhex_ty(t[1]), unhex_ty(t[2]))
    if n in ("list", "set") and t[2] is not None:
        return "%s<%s>" % (n, unhex_ty(t[2]))
    return n


def types_oracle(c, r):
    """validated programs: no helper may crash or hang; anything: the parser/validator must not crash"""
    out = []
    if r.get("code") in (100, 102, 104):
        out.append(("parsing/validation crashed: %s" % (r.get("panic") or r.get("died") or "hang")[:300], None))
        return out
    if r.get("tree") is not None and not r.get("agree"):
        out.append(("harness self-check: step-by-step validation disagrees with ParseFrugal (%s)" % r.get("parse_err"), None))
    if r.get("tree") is not None:
        for f in all_files(r["tree"]):
            if not f.get("index_ok", True):
                out.append(("typedef index is not last-declaration-wins for file %s" % f["name"], None))
    for q in r.get("queries") or []:
        for k in ("valid", "underlying", "is_enum", "is_struct", "is_union", "go_enum"):
            o = q[k]
            if o.get("code", 0) != 0:
                sig = None
                if k == "is_union" and "nil pointer" in (o.get("panic") or ""):
                    # only a type that leads, through a typedef of an include, to an include this file lacks
                    sig = {"class": "is_union_nil_on_transitive_include"}
                if k == "go_enum" and "not a valid thrift type" in (o.get("panic") or ""):
                    # theorem c11_classification_total_refuted: a name of an include's include resolved here
                    sig = {"class": "go_enum_panic_on_far_name"}
                out.append(("%s(%s) on a validated program: %s" % (k, unhex_ty(q["ty"]), o.get("panic") or "hang"), sig))
    return out


# ------------------------------------------------------------------------------------------------
# (B) the frugal binary

TARGETS = ["go", "java", "dart", "py", "py:asyncio", "py:tornado", "json", "html"]


def option_subset(rng, target, lab_prefix):
    """a -gen value for the target with a random subset of its options"""
    lang = target.split(":")[0]
    opts = []
    if target == "py:asyncio":
        opts.append("asyncio")
    if target == "py:tornado":
        opts.append("tornado")
    pool = {
        "go": ["async", "slim", "suppress_deprecated_logging", "omit_server_service_generation", "use_vendor",
               "thrift_import=github.com/apache/thrift/lib/go/thrift", "frugal_import=github.com/Workiva/frugal/lib/go"],
        "java": ["generated_annotations=use", "generated_annotations=undated", "generated_annotations=suppress", "async",
                 "boxed_primitives", "default_unsupported", "use_vendor", "suppress_deprecated_logging"],
        "dart": ["library_prefix=verif.gen", "use_enums", "use_int64", "use_null_for_unset", "use_vendor", "nullsafe"],
        "py": ["package_prefix=verifgen."],
        "json": ["indent"],
        "html": ["standalone"],
    }[lang]
    k = rng.choice([0, 0, 1, 1, 2, 3, len(pool)])
    seen = set()
    for o in rng.sample(pool, min(k, len(pool))):
        name = o.split("=")[0]
        if name not in seen:
            seen.add(name)
            opts.append(o)
    if lang == "go":
        opts.append("package_prefix=" + lab_prefix)
    rng.shuffle(opts)
    return lang + (":" + ",".join(opts) if opts else "")


def run_frugal(args, cwd, timeout=30):
    t0 = time.time()
    try:
        p = subprocess.run([FRUGAL] + args, cwd=cwd, capture_output=True, timeout=timeout)
        rc, out = p.returncode, p.stdout + p.stderr
        hang = False
    except subprocess.TimeoutExpired as e:
        rc, out, hang = 124, (e.stdout or b"") + (e.stderr or b""), True
    return {"rc": rc, "out": out.decode("utf8", "replace"), "wall": time.time() - t0, "hang": hang}


def crash_words(text):
    return [w for w in CRASH_WORDS if w in text]


# -- well-formedness of emitted files

_PY2 = None


def _py2_driver():
    """Python 2 grammar (lib2to3): the plain and tornado targets emit Python 2.7 code (`raise a, b, c`);
    no python2 interpreter is installed"""
    global _PY2
    if _PY2 is None:
        import warnings
        with warnings.catch_warnings():
            warnings.simplefilter("ignore")
            from lib2to3 import pygram, pytree
            from lib2to3.pgen2 import driver
        _PY2 = driver.Driver(pygram.python_grammar, convert=pytree.convert)
    return _PY2


def check_python(root, py2=False):
    errs = []
    n = 0
    for dp, _, fn in os.walk(root):
        for f in fn:
            if f.endswith(".py"):
                n += 1
                p = os.path.join(dp, f)
                try:
                    src = open(p, encoding="utf8").read()
                    ast.parse(src, p)
                except (SyntaxError, ValueError, UnicodeDecodeError) as e:
                    if py2:
                        try:
                            _py2_driver().parse_string(src if src.endswith("\n") else src + "\n")
                            continue
                        except Exception as e2:  # noqa
                            e = "python3: %s; python2 grammar: %s" % (e, e2)
                    errs.append("%s: %s" % (os.path.relpath(p, root), e))
    return n, errs


def check_json(root):
    errs = []
    n = 0
    for dp, _, fn in os.walk(root):
        for f in fn:
            n += 1
            p = os.path.join(dp, f)
            try:
                json.loads(open(p, encoding="utf8").read())
            except (ValueError, UnicodeDecodeError) as e:
                errs.append("%s: %s" % (os.path.relpath(p, root), e))
    return n, errs


VOID = {"area", "base", "br", "col", "embed", "hr", "img", "input", "link", "meta", "param", "source", "track", "wbr"}


class _Html(html.parser.HTMLParser):
    def __init__(self):
        super().__init__(convert_charrefs=True)
        self.stack = []
        self.errs = []

    def handle_starttag(self, tag, attrs):
        if tag not in VOID:
            self.stack.append(tag)

    def handle_endtag(self, tag):
        if tag in VOID:
            return
        if not self.stack or self.stack[-1] != tag:
            self.errs.append("unexpected </%s> at %s (open: %s)" % (tag, self.getpos(), self.stack[-3:]))
            if tag in self.stack:
                while self.stack and self.stack.pop() != tag:
                    pass
        else:
            self.stack.pop()


def check_html(root):
    errs = []
    n = 0
    for dp, _, fn in os.walk(root):
        for f in fn:
            if not f.endswith(".html"):
                continue
            n += 1
            p = os.path.join(dp, f)
            h = _Html()
            try:
                h.feed(open(p, encoding="utf8").read())
                h.close()
            except Exception as e:  # noqa
                errs.append("%s: %s" % (os.path.relpath(p, root), e))
                continue
            if h.stack:
                h.errs.append("unclosed %s" % h.stack[-3:])
            errs += ["%s: %s" % (os.path.relpath(p, root), e) for e in h.errs[:3]]
    return n, errs


def dart_balance(text):
    """lexer-level check: comments and string literals are closed, brackets nest (no Dart SDK offline)"""
    i, n = 0, len(text)
    stack = []
    pairs = {")": "(", "]": "[", "}": "{"}
    while i < n:
        c = text[i]
        if text.startswith("//", i):
            j = text.find("\n", i)
            i = n if j < 0 else j
            continue
        if text.startswith("/*", i):
            j = text.find("*/", i + 2)
            if j < 0:
                return "unterminated comment"
            i = j + 2
            continue
        if c in "'\"":
            raw = i > 0 and text[i - 1] == "r" and (i < 2 or not (text[i - 2].isalnum() or text[i - 2] == "_"))
            if text.startswith(c * 3, i):
                j = text.find(c * 3, i + 3)
                if j < 0:
                    return "unterminated multi-line string"
                i = j + 3
                continue
            j = i + 1
            while j < n and text[j] != c:
                if text[j] == "\n":
                    return "newline in string literal at offset %d" % i
                if text[j] == "\\" and not raw:
                    j += 1
                j += 1
            if j >= n:
                return "unterminated string"
            i = j + 1
            continue
        if c in "([{":
            stack.append(c)
        elif c in ")]}":
            if not stack or stack[-1] != pairs[c]:
                return "unbalanced %r at offset %d" % (c, i)
            stack.pop()
        i += 1
    if stack:
        return "unclosed %r" % stack[-1]
    return None


def check_dart(root):
    errs = []
    n = 0
    for dp, _, fn in os.walk(root):
        for f in fn:
            if f.endswith(".dart"):
                n += 1
                p = os.path.join(dp, f)
                e = dart_balance(open(p, encoding="utf8", errors="replace").read())
                if e:
                    errs.append("%s: %s" % (os.path.relpath(p, root), e))
    return n, errs


def java_tool():
    """compile the parse-only checker once (javax.tools parser; no jars, so no symbol resolution)"""
    d = os.path.join(vlib.CACHE, "c11java")
    src = os.path.join(vlib.VERIF, "tools", "props", "c11_java", "C11JavaParse.java")
    cls = os.path.join(d, "C11JavaParse.class")
    if not os.path.exists(cls) or os.path.getmtime(cls) < os.path.getmtime(src):
        os.makedirs(d, exist_ok=True)
        rc, out, err = vlib.sh(["javac", "-d", d, src], timeout=300)
        if rc != 0:
            raise RuntimeError("javac of the parse checker failed: " + out + err)
    return d


def check_java(roots):
    """returns {root: (nfiles, [errors])}"""
    res = {r: [0, []] for r in roots}
    if not roots:
        return res
    rc, out, err = vlib.sh(["java", "-cp", java_tool(), "C11JavaParse"] + list(roots), timeout=900)
    if rc != 0 or "FILES" not in out:
        raise RuntimeError("java parse checker failed: " + (out + err)[-2000:])
    for r in roots:
        res[r][0] = sum(1 for dp, _, fn in os.walk(r) for f in fn if f.endswith(".java"))
    for l in out.split("\n"):
        if l.startswith("ERR "):
            for r in roots:
                if l[4:].startswith(r.rstrip("/") + "/"):
                    res[r][1].append(l[4 + len(r.rstrip("/")) + 1:])
    return res


def check_go(lab_root, ids):
    """type-check every generated package inside the harness module (against the real runtime).
    returns {id: [error lines]}"""
    res = {i: [] for i in ids}
    if not ids:
        return res
    h = os.path.join(vlib.VERIF, "harness")
    rel = "./" + os.path.relpath(lab_root, h) + "/..."
    rc, out, err = vlib.sh(["go", "build", rel], cwd=h, env=vlib.GOENV, timeout=1500)
    text = out + err
    if rc == 0:
        return res
    relroot = os.path.relpath(lab_root, h).rstrip("/") + "/"
    found = False
    for l in text.split("\n"):
        l = l.strip()
        if l.startswith("#") or not l:
            continue
        k = l.find(relroot)
        if k >= 0:
            rest = l[k + len(relroot):]
            pid = rest.split("/", 1)[0]
            if pid in res:
                res[pid].append(rest)
                found = True
                continue
        # lines without a path (e.g. linker complaints) are machinery trouble
        raise RuntimeError("go build of the lab failed in an unexpected way: " + text[-2000:])
    if not found:
        raise RuntimeError("go build of the lab failed: " + text[-2000:])
    return res


# -- known generator defects that the default generator avoids and a few probe programs exercise

PROBES = ["typedef_struct", "allcaps_type", "new_prefix_type", "service_name_shape", "allcaps_throws", "transitive",
          "far_same_name", "dfx_allcaps_everywhere", "dfx_extends_shapes", "dfx_throws_names", "dfx_arg_names",
          "dfx_typedef_import"]
KNOWN_CLASS = {
    # probe feature -> (target, stage, regex every error line must match, class)
    "probe:typedef_struct": ("go", "wellformed",
                             r"(cannot use .* as .* value|cannot use .* in |\.(Read|Write) undefined|cannot make|cannot index|"
                             r"invalid operation|invalid argument|too many errors|has no field or method|cannot range over|"
                             r"mismatched types|invalid indirect|cannot call pointer method|undefined \(type)",
                             "go_typedef_of_struct_does_not_compile"),
    "probe:allcaps_type": ("go", "wellformed", r"(undefined: |has no field or method|too many errors|\.[A-Z0-9_]+ undefined)",
                           "go_screaming_caps_type_name"),
    "probe:new_prefix_type": ("go", "wellformed", r"(undefined: .*New|too many errors)", "go_new_prefix_type_from_include"),
    "probe:service_name_shape": ("go", "wellformed",
                                 r"(undefined: .*F|undefined \(type|has no field or method|too many errors)",
                                 "go_extends_service_not_in_title_case"),
    "probe:allcaps_throws": ("go", "wellformed", r"(\.[A-Z0-9_]+ undefined|has no field or method|too many errors)",
                             "go_screaming_caps_exception_field"),
}


def known_signature(target, stage, lines, features):
    lang = target.split(":")[0]
    if "probe:transitive" in features or "probe:far_same_name" in features:
        # typedef of an include that leads into an include the root does not include: the result
        # cannot be named in the root's scope (see F15); every target is affected in its own way
        return {"class": "typedef_through_transitive_include", "target": lang}
    for feat, (t, st, rx, cls) in KNOWN_CLASS.items():
        if feat in features and t == lang and st == stage and lines and all(re.search(rx, l) for l in lines):
            return {"class": cls, "target": lang}
    return None


def explore_valid(ctx, programs, workdir, lab_root):
    """run every program through every target; returns list of observations"""
    rng = ctx.rng
    jobs = []
    for pi, p in enumerate(programs):
        d = os.path.join(workdir, "v%d" % pi)
        os.makedirs(d)
        for fn, txt in p["files"].items():
            os.makedirs(os.path.dirname(os.path.join(d, fn)), exist_ok=True)
            with open(os.path.join(d, fn), "w") as fh:
                fh.write(txt)
        p["dir"] = d
        for t in TARGETS:
            pid = "p%d" % pi
            if t == "go":
                out = os.path.join(lab_root, pid)
            else:
                out = os.path.join(d, "out_" + t.replace(":", "_"))
            genv = option_subset(rng, t, "verifharness/" + os.path.relpath(lab_root, os.path.join(vlib.VERIF, "harness")) + "/" + pid + "/")
            jobs.append({"pi": pi, "pid": pid, "target": t, "gen": genv, "outdir": out, "cwd": d,
                         "args": ["-gen", genv, "-r", "-out", out] + (["-delim", rng.choice(["/", "-", "::"])] if rng.random() < 0.15 else [])
                         + [p["main"]]})
    with concurrent.futures.ThreadPoolExecutor(max_workers=int(os.environ.get("VERIF_JOBS", "4"))) as ex:
        results = list(ex.map(lambda j: run_frugal(j["args"], j["cwd"]), jobs))
    for j, r in zip(jobs, results):
        j.update(r)
    # well-formedness
    ok = [j for j in jobs if j["rc"] == 0]
    for j in jobs:
        if j["rc"] != 0 and j["target"] == "go":
            shutil.rmtree(j["outdir"], ignore_errors=True)   # partial output would break the build of the others
    go_res = check_go(lab_root, [j["pid"] for j in ok if j["target"] == "go"])
    java_res = check_java([j["outdir"] for j in ok if j["target"] == "java"])
    for j in ok:
        t = j["target"]
        if t == "go":
            n = sum(1 for dp, _, fn in os.walk(j["outdir"]) for f in fn if f.endswith(".go"))
            j["files"], j["wf"] = n, go_res[j["pid"]]
        elif t == "java":
            j["files"], j["wf"] = java_res[j["outdir"]]
        elif t.startswith("py"):
            j["files"], j["wf"] = check_python(j["outdir"], py2=(t != "py:asyncio"))
        elif t == "json":
            j["files"], j["wf"] = check_json(j["outdir"])
        elif t == "html":
            j["files"], j["wf"] = check_html(j["outdir"])
        else:
            j["files"], j["wf"] = check_dart(j["outdir"])
    return jobs


def explore_invalid(ctx, texts, workdir):
    rng = ctx.rng
    jobs = []
    for i, t in enumerate(texts):
        d = os.path.join(workdir, "i%d" % i)
        os.makedirs(d)
        for fn, data in t["files"].items():
            os.makedirs(os.path.dirname(os.path.join(d, fn)), exist_ok=True)
            with open(os.path.join(d, fn), "wb") as fh:
                fh.write(data if isinstance(data, bytes) else data.encode("utf8"))
        target = rng.choice(TARGETS)
        genv = t.get("gen") or option_subset(rng, target, "verifharness/lab/gen/none/")
        args = ["-gen", genv, "-r", "-out", os.path.join(d, "out"), t["main"]]
        kind = t["kind"]
        if t["expect"] == "reject" and rng.random() < 0.3:
            # several files in one invocation, a valid one after the invalid one: the exit status still tells of the failure
            with open(os.path.join(d, "zz_ok_after.frugal"), "w") as fh:
                fh.write("struct ZzOkAfter { 1: i32 a }\n")
            args.append("zz_ok_after.frugal")
            kind += "+valid-file-after"
        jobs.append({"i": i, "kind": kind, "gen": genv, "cwd": d, "expect": t["expect"], "files": t["files"],
                     "main": t["main"], "args": args})
    with concurrent.futures.ThreadPoolExecutor(max_workers=int(os.environ.get("VERIF_JOBS", "4"))) as ex:
        results = list(ex.map(lambda j: run_frugal(j["args"], j["cwd"]), jobs))
    for j, r in zip(jobs, results):
        j.update(r)
    return jobs


def printable(files):
    out = {}
    for k, v in files.items():
        if isinstance(v, bytes):
            try:
                out[k] = v.decode("utf8")
            except UnicodeDecodeError:
                out[k] = {"hex": v.hex()}
        else:
            out[k] = v
    return out


def run(ctx, br):
    quick = ctx.tier == "quick"
    rng = ctx.rng
    n_casing, n_gen, n_tdprog, n_valid, n_mut, n_arb = (1500, 400, 150, 24, 200, 100) if quick else (12000, 3000, 1200, 150, 1500, 700)
    cov = {}
    viol = 0

    # ---------------- (A) pointwise correspondence -------------------------------------------
    ccases = casing_cases(rng, n_casing)
    gcases = gen_cases(rng, n_gen)
    tcases = []
    for i in range(n_tdprog):
        p = G.typedef_program(rng, want_invalid=(i % 3 == 1))
        p["kind"] = "types"
        tcases.append(p)
    for i in range(max(3, n_valid // 3)):
        p = G.valid_program(rng, exotic=True, probes=(["transitive"] if i % 3 == 0 else []))
        p["kind"] = "types"
        tcases.append(p)
    for name, txt in G.SEMANTIC_INVALID:
        tcases.append({"kind": "types", "files": {"root.frugal": txt, "other.frugal": "struct O {}\n"}, "main": "root.frugal",
                       "features": ["semantic:" + name]})
    for pr in ("transitive", "far_same_name"):   # witnesses of the _refuted theorems, replayed on the real code
        snippet, extra = G.PROBE_SNIPPETS[pr]
        tcases.append({"kind": "types", "files": dict(extra, **{"root.frugal": snippet}), "main": "root.frugal",
                       "features": ["witness:" + pr]})
    tdir = os.path.join(ctx.rundir, "types")
    for i, p in enumerate(tcases):
        p["req"] = {"op": "types", "dir": os.path.join(tdir, str(i)), "files": p["files"], "main": p["main"]}
    reqs = [c["req"] for c in ccases] + [c["req"] for c in gcases] + [{"op": "langs"}] + [c["req"] for c in tcases]
    resps = run_harness(reqs)
    cr = resps[:len(ccases)]
    gr = resps[len(ccases):len(ccases) + len(gcases)]
    lr = resps[len(ccases) + len(gcases)]
    tr = resps[len(ccases) + len(gcases) + 1:]

    judge_cases, judge_src = [], []
    for c, r in zip(ccases, cr):
        why = casing_oracle(c, r)
        if why:
            viol += 1
            ctx.violation("C11 oracle: " + why, {"kind": "casing", "request": c["req"], "input": c["s"], "observed": r})
        if r.get("code") != 104:
            judge_cases.append(casing_tok(c, r))
            judge_src.append(("casing", c, r))
    for c, r in zip(gcases, gr):
        why = gen_oracle(c, r)
        if why:
            viol += 1
            ctx.violation("C11 oracle: " + why, {"kind": "gen", "gen": c["s"], "observed": r})
        if r.get("code") != 104:
            judge_cases.append(gen_tok(c, r))
            judge_src.append(("gen", c, r))
    judge_cases.append([3, [[l.encode(), [o.encode() for o in opts]] for l, opts in lr.get("langs", [])]])
    judge_src.append(("langs", {}, lr))
    n_queries = 0
    follow = 0
    for c, r in zip(tcases, tr):
        for why, sig in types_oracle(c, r):
            viol += 1
            ctx.violation("C11 oracle: " + why, {"kind": "types", "files": c["files"], "main": c["main"],
                                                 "features": c.get("features"), "observed_code": r.get("code")}, signature=sig)
        if r.get("tree") is not None:
            judge_cases.append([4, tree_tok(r["tree"])])
            judge_src.append(("validate", c, r))
            if r.get("queries"):
                n_queries += len(r["queries"])
                follow += sum(1 for q in r["queries"] if q["underlying"].get("ty") != q["ty"])
                judge_cases.append([5, tree_tok(r["tree"]), [query_tok(q) for q in r["queries"]]])
                judge_src.append(("queries", c, r))
    verdicts = vlib.run_judge(ctx.rundir, "JCompilerTotal", "judge", judge_cases)
    mism = [i for i, v in enumerate(verdicts) if v < 0]
    for i in mism:
        kind, c, r = judge_src[i]
        rep = {"kind": kind, "no_failing_input_found": True,
               "broken": "correspondence JCompilerTotal.judge (Model/CompilerTotal.v disagrees with the implementation on this input)",
               "input": c.get("s") if kind in ("casing", "gen") else {"files": c.get("files"), "main": c.get("main")},
               "fn": c.get("fn"), "observed": r if kind in ("casing", "gen", "langs") else
               {"code": r.get("code"), "parse_err": r.get("parse_err"),
                "validation": [(f["name"], f["valid"], f["verr"]) for f in all_files(r["tree"])] if r.get("tree") else None}}
        ctx.violation("C11 correspondence: model and implementation disagree (%s)" % kind, rep)
    tags = {}
    for (kind, _, _), v in zip(judge_src, verdicts):
        if v >= 0:
            tags[(kind, v)] = tags.get((kind, v), 0) + 1

    # ---------------- (B) exploration of the binary --------------------------------------------
    work = os.path.join(ctx.rundir, "explore")
    os.makedirs(work)
    lab_root = os.path.join(vlib.VERIF, "harness", "lab", "gen", "c11_%d" % os.getpid())
    shutil.rmtree(lab_root, ignore_errors=True)
    try:
        programs = []
        for i in range(n_valid):
            programs.append(G.valid_program(rng, exotic=True, size=(1.0 if i % 5 else 2.0)))
        # the generator defects that are known and not repaired: one small program each, every run
        for pr in PROBES:
            programs.append(G.valid_program(rng, exotic=False, size=0.3, probes=[pr]))
        vjobs = explore_valid(ctx, programs, work, lab_root)
        feature_hist = {}
        for p in programs:
            for f in p["features"]:
                feature_hist[f] = feature_hist.get(f, 0) + 1
        emitted = 0
        for j in vjobs:
            p = programs[j["pi"]]
            rep = {"kind": "valid_program", "files": p["files"], "main": p["main"], "gen": j["gen"], "args": j["args"][:-1] and
                   [a for a in j["args"] if not a.startswith("/")], "features": p["features"],
                   "exit": j["rc"], "output": j["out"][-1500:], "wall_s": round(j["wall"], 2)}
            problems = []
            if j["hang"]:
                problems.append(("run", "compiler did not terminate within 30 s", []))
            elif j["rc"] != 0:
                problems.append(("run", "valid program rejected or crashed: exit %d: %s" % (j["rc"], j["out"][-300:]),
                                 [l for l in j["out"].split("\n") if l.strip()]))
            else:
                if crash_words(j["out"]):
                    problems.append(("run", "crash text in the output of a successful run: %s" % crash_words(j["out"]), []))
                if j["wall"] > WALL_LIMIT:
                    problems.append(("run", "compilation took %.1f s" % j["wall"], []))
                emitted += j.get("files", 0)
                if j.get("files", 0) == 0:
                    problems.append(("wellformed", "no file was emitted", []))
                if j.get("wf"):
                    problems.append(("wellformed", "emitted %s is not well-formed: %s" % (j["target"], "; ".join(j["wf"][:4])), j["wf"]))
            for stage, why, lines in problems:
                viol += 1
                rep2 = dict(rep, stage=stage, errors=lines[:12])
                ctx.violation("C11 oracle: [%s] %s" % (j["target"], why), rep2,
                              signature=known_signature(j["target"], stage, lines, p["features"]))

        # invalid, mutated and arbitrary texts
        texts = []
        for name, txt in G.SEMANTIC_INVALID:
            texts.append({"kind": "semantic:" + name, "files": {"root.frugal": txt, "other.frugal": "struct O {}\n"},
                          "main": "root.frugal", "expect": "reject"})
        for g, k in (("cobol", "gen:unknown_language"), ("go:bogus", "gen:unknown_option"), ("go:async,nope=1", "gen:unknown_option"),
                     (":", "gen:empty"), ("py:slim", "gen:option_of_other_language")):
            texts.append({"kind": k, "files": {"root.frugal": "struct S { 1: i32 a }\n"}, "main": "root.frugal",
                          "expect": "reject", "gen": g})
        texts.append({"kind": "file:missing", "files": {}, "main": "root.frugal", "expect": "reject"})
        texts.append({"kind": "file:bad_name", "files": {"a.b.frugal": "struct S {}\n"}, "main": "a.b.frugal", "expect": "reject"})
        texts.append({"kind": "file:empty", "files": {"root.frugal": ""}, "main": "root.frugal", "expect": "any"})
        for i in range(n_mut):
            p = programs[i % len(programs)] if i % 2 else G.valid_program(rng, exotic=False, size=0.6)
            files = dict(p["files"])
            victim = rng.choice(sorted(files))
            data, how = G.mutate(rng, files[victim])
            files[victim] = data
            texts.append({"kind": "mutated:" + how, "files": files, "main": p["main"], "expect": "any"})
        for i in range(n_arb):
            texts.append({"kind": "arbitrary", "files": {"root.frugal": G.arbitrary(rng)}, "main": "root.frugal", "expect": "any"})
        ijobs = explore_invalid(ctx, texts, work)
        ihist = {}
        rejected = accepted = 0
        for j in ijobs:
            k = j["kind"].split(":")[0]
            ihist[k] = ihist.get(k, 0) + 1
            rep = {"kind": j["kind"], "files": printable(j["files"]), "main": j["main"], "gen": j["gen"],
                   "exit": j["rc"], "output": j["out"][-1500:], "wall_s": round(j["wall"], 2)}
            why = None
            if j["hang"]:
                why = "compiler did not terminate within 30 s"
            elif crash_words(j["out"]) and not (j["rc"] == 0):
                why = "compiler crashed instead of reporting a diagnostic: %s" % j["out"][-300:]
            elif j["rc"] not in (0, 1):
                why = "abnormal exit status %d: %s" % (j["rc"], j["out"][-300:])
            elif j["rc"] == 1 and not j["out"].strip():
                why = "non-zero exit without any message"
            elif j["rc"] == 0 and j["expect"] == "reject":
                why = "invalid input (%s) accepted with exit 0" % j["kind"]
            elif j["wall"] > WALL_LIMIT:
                why = "took %.1f s" % j["wall"]
            if j["rc"] == 0:
                accepted += 1
            else:
                rejected += 1
            if why:
                viol += 1
                sig = {"class": "invalid_accepted", "kind": j["kind"]} if (j["rc"] == 0 and j["expect"] == "reject") else None
                ctx.violation("C11 oracle: [%s] %s" % (j["kind"], why), rep, signature=sig)
    finally:
        shutil.rmtree(lab_root, ignore_errors=True)

    # ---------------- (C) the validation pass and include resolution inside the model ----------
    vcov, v_evals, v_distinct, v_judged, v_viol = c11_validate.run(ctx, quick)
    viol += v_viol

    # replays that name a failing input first (only the first 20 are written)
    ctx.violations.sort(key=lambda v: bool(v["replay"].get("no_failing_input_found")))
    ctx.assumptions += [
        "strings are ASCII (identifiers of the IDL grammar); unicode.ToUpper/ToLower modelled on ASCII only",
        "valid programs come from a generator that avoids target-language reserved words, names consisting only of underscores, "
        "dotted declared names and container-typed map keys / set elements",
        "Java: syntax only (javax.tools parser, no jars for symbol resolution); Dart: comment/string/bracket balance only (no SDK); "
        "Python: ast.parse under python3 (asyncio) or, for the Python 2.7 targets, python3 else the lib2to3 Python 2 grammar; HTML: tag nesting; Go: full type check against the runtime (go build)",
    ]
    distinct = len({(c["fn"], c["s"], c["s2"]) for c in ccases if c["s"]}) + len({c["s"] for c in gcases if ":" in c["s"]}) \
        + sum(1 for c, r in zip(tcases, tr) if r.get("queries")) + len({(j["pi"], j["gen"]) for j in vjobs}) \
        + len({json.dumps(printable(j["files"]), sort_keys=True) for j in ijobs})
    cov.update({
        "evaluations": len(ccases) + len(gcases) + 1 + len(tcases) + len(vjobs) + len(ijobs) + v_evals,
        "distinct_nontrivial": distinct + v_distinct,
        "rule": "distinct by input: casing (function, non-empty string), -gen values containing ':', programs on which type "
                "questions were asked, (valid program, -gen value) pairs, invalid texts",
        "traces_validated_against_impl": len([v for v in verdicts if v >= 0]) + v_judged,
        "judge_cases": len(judge_cases),
        "judge_mismatches": len(mism),
        "oracle_failures": viol,
        "model_branch_tags": len(tags),
        "type_questions": n_queries,
        "type_questions_following_typedefs": follow,
        "valid_programs": len(programs),
        "compiler_runs_valid": len(vjobs),
        "compiler_runs_valid_exit0": len([j for j in vjobs if j["rc"] == 0]),
        "emitted_files_checked": emitted,
        "compiler_runs_invalid": len(ijobs),
        "invalid_rejected": rejected,
        "invalid_accepted": accepted,
        "input_histogram": {"casing": len(ccases), "gen": len(gcases), "type_programs": len(tcases), "invalid": ihist,
                            "valid_program_features": feature_hist},
        "max_wall_s": round(max([j["wall"] for j in vjobs + ijobs] or [0]), 2),
        "samples": [
            {"casing": ccases[7]["req"], "observed": cr[7]},
            {"gen": gcases[15]["s"], "observed": gr[15]},
            {"valid_program": {k: v[:400] for k, v in programs[0]["files"].items()}, "gen": vjobs[0]["gen"], "exit": vjobs[0]["rc"]},
            {"invalid": ijobs[2]["kind"], "exit": ijobs[2]["rc"], "output": ijobs[2]["out"][:200]},
        ],
    })
    cov.update(vcov)
    return cov
