"""Generators, reference codec and runners shared by C04 / C05 / C09."""
import random
import json
import os
import struct
import subprocess

import vlib


def rand_bytes(rng, n, style):
    if style == 0:   # uniform bytes
        return bytes(rng.getrandbits(8) for _ in range(n))
    if style == 1:   # ascii identifier-like
        return bytes(rng.choice(b"abcdefghijklmnopqrstuvwxyz_-0123456789ABCXYZ") for _ in range(n))
    # multi-byte UTF-8
    out = bytearray()
    while len(out) < n:
        cp = rng.choice([rng.randrange(0x20, 0x7f), rng.randrange(0x80, 0x800), rng.randrange(0x800, 0xd800),
                         rng.randrange(0xe000, 0x10000), rng.randrange(0x10000, 0x110000), 0x1F4A9, 0xe9, 0])
        out += chr(cp).encode("utf8")
    return bytes(out)


def rand_len(rng, big=False):
    r = rng.random()
    if r < 0.15:
        return 0
    if r < 0.7:
        return rng.randrange(1, 12)
    if r < 0.95:
        return rng.randrange(12, 300)
    if big and r < 0.99:
        return rng.randrange(300, 70000)
    return rng.randrange(300, 2000)


def rand_map(rng, utf8_only=False, big=False, maxn=40):
    r = rng.random()
    n = 0 if r < 0.08 else (rng.randrange(1, 5) if r < 0.6 else rng.randrange(5, max(maxn, 5) + 1))
    n = min(n, maxn)
    m = {}
    for _ in range(n):
        style = rng.choice([1, 2]) if utf8_only else rng.choice([0, 1, 1, 2])
        k = rand_bytes(rng, rand_len(rng), style)
        v = rand_bytes(rng, rand_len(rng, big), rng.choice([1, 2]) if utf8_only else rng.choice([0, 1, 2]))
        m[k] = v
    # one map in four also holds entries that only LOOK like the reserved headers to anything but a walk over the
    # length-prefixed pairs: a name ending in a reserved name, a value holding the bytes of a whole reserved pair
    # (decided by a generator of its own, seeded by the map: the caller's stream is left as it was)
    own = random.Random(repr(sorted(m.items())))
    if m and own.random() < 0.25:
        res = own.choice([b"_opid", b"_cid", b"_timeout"])
        num = str(own.randrange(0, 1 << 40)).encode()
        m[own.choice([b"parent", b"x", b"_", b"trace-"]) + res] = num
        if own.random() < 0.5:
            m[own.choice([b"note", b"n"])] = b"x" + struct.pack(">I", len(res)) + res + struct.pack(">I", len(num)) + num
    return m


def ref_marshal(pairs):
    body = b"".join(struct.pack(">I", len(k)) + k + struct.pack(">I", len(v)) + v for k, v in pairs)
    return b"\x00" + struct.pack(">I", len(body)) + body


def ref_parse(b):
    """Independent reference parser: returns (pairs_in_order, rest) or None if not well formed."""
    if len(b) < 5 or b[0] != 0:
        return None
    size = struct.unpack(">I", b[1:5])[0]
    if size > len(b) - 5:
        return None
    i, end, pairs = 5, 5 + size, []
    while i < end:
        if end - i < 4:
            return None
        n = struct.unpack(">I", b[i:i + 4])[0]
        i += 4
        if n > end - i:
            return None
        k = b[i:i + n]
        i += n
        if end - i < 4:
            return None
        n = struct.unpack(">I", b[i:i + 4])[0]
        i += 4
        if n > end - i:
            return None
        v = b[i:i + n]
        i += n
        pairs.append((k, v))
    return pairs, b[end:]


def hexpairs(pairs):
    return [[k.hex(), v.hex()] for k, v in pairs]


def unhexpairs(hp):
    return [(bytes.fromhex(k), bytes.fromhex(v)) for k, v in (hp or [])]


def run_lines(cmd, reqs, timeout=900, env=None):
    """Send JSON-line requests to a subprocess, return list of decoded JSON-line responses."""
    inp = ("\n".join(json.dumps(r) for r in reqs) + "\n").encode()
    rc, out, err = vlib.sh(cmd, inp=inp, timeout=timeout, env=env)
    lines = [l for l in out.split("\n") if l.strip()]
    resps = []
    for l in lines:
        try:
            resps.append(json.loads(l))
        except ValueError:
            resps.append({"code": 103, "panic": "unparsable harness output: " + l[:200]})
    return rc, resps, err


def run_go_headers(reqs):
    """The vh process may die on a fatal (unrecoverable) error: restart after the offending request."""
    resps = []
    pending = list(reqs)
    guard = 0
    while pending and guard < 50:
        guard += 1
        rc, got, err = run_lines([os.path.join(vlib.BIN, "vh"), "headers"], pending)
        resps.extend(got)
        if len(got) >= len(pending):
            break
        # the request after the last answered one killed the process
        resps.append({"code": 100, "panic": "process died: " + err[-400:]})
        pending = pending[len(got) + 1:]
    return resps


def run_py_headers(reqs):
    rc, got, err = run_lines(["python3", os.path.join(vlib.VERIF, "tools", "py_headers.py"), vlib.REPO], reqs)
    if len(got) != len(reqs):
        raise RuntimeError("python codec runner failed: " + err[-1000:])
    return got
