"""C10: grammar.peg and the generated grammar.peg.go must say the same thing.

grammar.peg.go is what runs (and what Gen/Grammar.v is regenerated from); grammar.peg is what a maintainer
edits and what pigeon would regenerate the .go file from.  pigeon is not available offline, so the two files
are kept in step by hand: this pass parses both and compares them, so that an edit of one file without the
other is reported.  Compared, rule by rule and node by node:

  * rule names and their order;
  * the expression tree of every rule as pigeon builds it (sequence, choice, label, & ! ? * +, rule
    reference, literal with its value and case flag, character class with its source text and the chars /
    ranges / inverted fields pigeon derives from it, any-matcher, action), single-element sequences and
    choices collapsed as pigeon collapses them;
  * the name of every action function: callon<Rule><N> with N the pre-order number of the action node;
  * the code of every action (the block in grammar.peg against the body of `func (c *current) on<Rule><N>`)
    and its parameter list (the labels in scope, in order), compared with all white space removed (gofmt);
  * the initial code block (after its import list) against the text of grammar.peg.go between its import
    list and `var g`, white space removed.

Not compared: positions (used in error messages only) and pigeon's runtime at the end of the .go file.
`compare(peg_text, go_text)` returns a list of human-readable differences (empty = in step).
"""
import re


class SyncError(Exception):
    pass


# ---------------------------------------------------------------------------------------------------
# Go-aware skipping of code blocks

def _skip_go_block(s, i):
    """s[i] == '{': index just after the matching '}' (strings, runes, comments respected)"""
    assert s[i] == "{"
    depth = 0
    n = len(s)
    while i < n:
        c = s[i]
        if c == "{":
            depth += 1
            i += 1
        elif c == "}":
            depth -= 1
            i += 1
            if depth == 0:
                return i
        elif c == '"':
            i += 1
            while s[i] != '"':
                i += 2 if s[i] == "\\" else 1
            i += 1
        elif c == "`":
            i = s.index("`", i + 1) + 1
        elif c == "'":
            i += 1
            while s[i] != "'":
                i += 2 if s[i] == "\\" else 1
            i += 1
        elif s.startswith("//", i):
            j = s.find("\n", i)
            i = n if j < 0 else j
        elif s.startswith("/*", i):
            i = s.index("*/", i + 2) + 2
        else:
            i += 1
    raise SyncError("unbalanced code block")


def _squash(code):
    return re.sub(r"\s+", "", code)


def _unquote_go(body):
    """value of a Go / pigeon interpreted string body (between the quotes)"""
    out = []
    i = 0
    simple = {"n": "\n", "r": "\r", "t": "\t", "\\": "\\", "'": "'", '"': '"', "a": "\a", "b": "\b", "f": "\f", "v": "\v",
              "0": "\0", "]": "]", "[": "[", "-": "-", "^": "^"}
    while i < len(body):
        c = body[i]
        if c != "\\":
            out.append(c)
            i += 1
            continue
        e = body[i + 1]
        if e == "x":
            out.append(chr(int(body[i + 2:i + 4], 16)))
            i += 4
        elif e == "u":
            out.append(chr(int(body[i + 2:i + 6], 16)))
            i += 6
        elif e == "U":
            out.append(chr(int(body[i + 2:i + 10], 16)))
            i += 10
        elif e in simple:
            out.append(simple[e])
            i += 2
        else:
            raise SyncError("unknown escape \\%s" % e)
    return "".join(out)


# ---------------------------------------------------------------------------------------------------
# grammar.peg

_IDENT = re.compile(r"[A-Za-z_][A-Za-z0-9_]*")
_ARROW = re.compile(r"<-|←|⟵|=")


class _Peg:
    def __init__(self, text):
        self.s = text
        self.i = 0

    def ws(self):
        s = self.s
        while self.i < len(s):
            if s[self.i] in " \t\r\n":
                self.i += 1
            elif s.startswith("//", self.i):
                j = s.find("\n", self.i)
                self.i = len(s) if j < 0 else j
            elif s.startswith("/*", self.i):
                self.i = s.index("*/", self.i + 2) + 2
            else:
                break

    def peek_rule_start(self):
        """at an identifier followed by an arrow?"""
        m = _IDENT.match(self.s, self.i)
        if not m:
            return False
        save = self.i
        self.i = m.end()
        self.ws()
        ok = bool(_ARROW.match(self.s, self.i)) and not self.s.startswith("==", self.i)
        self.i = save
        return ok

    def grammar(self):
        self.ws()
        init = None
        if self.s[self.i] == "{":
            j = _skip_go_block(self.s, self.i)
            init = self.s[self.i + 1:j - 1]
            self.i = j
        rules = []
        self.ws()
        while self.i < len(self.s):
            m = _IDENT.match(self.s, self.i)
            if not m:
                raise SyncError("grammar.peg: rule name expected at offset %d" % self.i)
            name = m.group(0)
            self.i = m.end()
            self.ws()
            if self.s[self.i] == '"':           # display name
                self.literal()
                self.ws()
            a = _ARROW.match(self.s, self.i)
            if not a:
                raise SyncError("grammar.peg: '<-' expected after %s" % name)
            self.i = a.end()
            rules.append((name, self.choice()))
            self.ws()
        return init, rules

    def choice(self):
        alts = [self.action()]
        while True:
            self.ws()
            if self.i < len(self.s) and self.s[self.i] == "/" and not self.s.startswith("//", self.i) \
                    and not self.s.startswith("/*", self.i):
                self.i += 1
                alts.append(self.action())
            else:
                break
        return alts[0] if len(alts) == 1 else ("choice", alts)

    def action(self):
        seq = self.seq()
        self.ws()
        if self.i < len(self.s) and self.s[self.i] == "{":
            j = _skip_go_block(self.s, self.i)
            code = self.s[self.i + 1:j - 1]
            self.i = j
            return ("action", code, seq)
        return seq

    def seq(self):
        items = []
        while True:
            self.ws()
            if self.i >= len(self.s) or self.s[self.i] in "/){" or self.peek_rule_start():
                break
            items.append(self.labeled())
        if not items:
            raise SyncError("grammar.peg: empty sequence at offset %d" % self.i)
        return items[0] if len(items) == 1 else ("seq", items)

    def labeled(self):
        m = _IDENT.match(self.s, self.i)
        if m:
            j = m.end()
            while j < len(self.s) and self.s[j] in " \t":
                j += 1
            if j < len(self.s) and self.s[j] == ":":
                self.i = j + 1
                return ("label", m.group(0), self.prefixed())
        return self.prefixed()

    def prefixed(self):
        self.ws()
        c = self.s[self.i]
        if c in "&!":
            self.i += 1
            self.ws()
            if self.s[self.i] == "{":
                raise SyncError("grammar.peg: semantic predicates are not supported by this check")
            return ("and" if c == "&" else "not", self.suffixed())
        return self.suffixed()

    def suffixed(self):
        p = self.primary()
        self.ws()
        if self.i < len(self.s) and self.s[self.i] in "?*+":
            c = self.s[self.i]
            self.i += 1
            return ({"?": "opt", "*": "star", "+": "plus"}[c], p)
        return p

    def literal(self):
        s = self.s
        q = s[self.i]
        j = self.i + 1
        if q == "`":
            k = s.index("`", j)
            val = s[j:k]
        else:
            k = j
            while s[k] != q:
                k += 2 if s[k] == "\\" else 1
            val = _unquote_go(s[j:k])
        self.i = k + 1
        ic = False
        if self.i < len(s) and s[self.i] == "i" and not _IDENT.match(s, self.i + 1) and \
                (self.i + 1 >= len(s) or not (s[self.i + 1].isalnum() or s[self.i + 1] == "_")):
            ic = True
            self.i += 1
        return ("lit", val, ic)

    def primary(self):
        self.ws()
        s = self.s
        c = s[self.i]
        if c in "\"'`":
            return self.literal()
        if c == "[":
            k = self.i + 1
            while s[k] != "]":
                k += 2 if s[k] == "\\" else 1
            raw = s[self.i:k + 1]
            self.i = k + 1
            ic = False
            if self.i < len(s) and s[self.i] == "i" and (self.i + 1 >= len(s) or not (s[self.i + 1].isalnum() or s[self.i + 1] == "_")):
                ic = True
                self.i += 1
            return ("class", raw, ic)
        if c == ".":
            self.i += 1
            return ("any",)
        if c == "(":
            self.i += 1
            e = self.choice()
            self.ws()
            if s[self.i] != ")":
                raise SyncError("grammar.peg: ')' expected at offset %d" % self.i)
            self.i += 1
            return e
        m = _IDENT.match(s, self.i)
        if m:
            self.i = m.end()
            return ("ref", m.group(0))
        raise SyncError("grammar.peg: unexpected %r at offset %d" % (s[self.i:self.i + 10], self.i))


def class_fields(raw, ic):
    """what pigeon derives from the source text of a character class: (chars, ranges, inverted)"""
    body = raw[1:-1]
    inverted = body.startswith("^")
    if inverted:
        body = body[1:]
    items = []
    i = 0
    while i < len(body):
        if body[i] == "\\":
            e = body[i + 1]
            if e in "xuU":
                n = {"x": 2, "u": 4, "U": 8}[e]
                items.append(chr(int(body[i + 2:i + 2 + n], 16)))
                i += 2 + n
            elif e == "p":
                raise SyncError("unicode classes are not supported by this check")
            else:
                items.append(_unquote_go(body[i:i + 2]))
                i += 2
        else:
            items.append(body[i])
            i += 1
    # ranges: x '-' y where '-' is a bare dash between two items
    chars, ranges = [], []
    raw_items = []
    i = 0
    j = 0
    # re-walk the body to know which '-' were bare
    k = 0
    bare = []
    while k < len(body):
        if body[k] == "\\":
            e = body[k + 1]
            k += 2 + ({"x": 2, "u": 4, "U": 8}.get(e, 0))
            bare.append(False)
        else:
            bare.append(body[k] == "-")
            k += 1
    i = 0
    while i < len(items):
        if i + 2 < len(items) and bare[i + 1] and items[i + 1] == "-":
            ranges += [items[i], items[i + 2]]
            i += 3
        else:
            chars.append(items[i])
            i += 1
    if ic:
        chars = [c.lower() for c in chars]
        ranges = [c.lower() for c in ranges]
    return chars, ranges, inverted


# ---------------------------------------------------------------------------------------------------
# grammar.peg.go

_GO_TOK = re.compile(r"""
    (?P<ws>\s+|//[^\n]*|/\*.*?\*/)
  | (?P<str>"(?:[^"\\]|\\.)*")
  | (?P<raw>`[^`]*`)
  | (?P<rune>'(?:[^'\\]|\\.[^']*)')
  | (?P<callon>\(\*parser\)\.\w+)
  | (?P<slice>\[\](?:interface\{\}|rune|\*rule|\*unicode\.RangeTable))
  | (?P<ident>[A-Za-z_][\w.]*)
  | (?P<num>\d+)
  | (?P<punct>[&{}:,])
""", re.X | re.S)


def _go_tokens(s):
    i = 0
    out = []
    while i < len(s):
        m = _GO_TOK.match(s, i)
        if not m:
            raise SyncError("grammar.peg.go: cannot tokenise %r" % s[i:i + 20])
        i = m.end()
        k = m.lastgroup
        if k != "ws":
            out.append((k, m.group(0)))
    return out


class _GoLit:
    def __init__(self, toks):
        self.t = toks
        self.i = 0

    def value(self):
        k, v = self.t[self.i]
        if k == "punct" and v == "&":
            self.i += 1
            k, v = self.t[self.i]
        elided = (k, v) == ("punct", "{")          # element of a slice literal with the type left out
        if elided or (k in ("ident", "slice") and self.i + 1 < len(self.t) and self.t[self.i + 1] == ("punct", "{")):
            ty = "" if elided else v
            self.i += 1 if elided else 2
            fields, elems = {}, []
            while self.t[self.i] != ("punct", "}"):
                if self.t[self.i][0] == "ident" and self.t[self.i + 1] == ("punct", ":"):
                    key = self.t[self.i][1]
                    self.i += 2
                    fields[key] = self.value()
                else:
                    elems.append(self.value())
                if self.t[self.i] == ("punct", ","):
                    self.i += 1
            self.i += 1
            return ("lit", ty, fields, elems)
        self.i += 1
        if k == "str":
            return _unquote_go(v[1:-1])
        if k == "raw":
            return v[1:-1]
        if k == "rune":
            return _unquote_go(v[1:-1])
        if k == "num":
            return int(v)
        if k == "callon":
            return ("callon", v[len("(*parser).callon"):])
        if k == "ident":
            return {"true": True, "false": False}.get(v, ("ident", v))
        raise SyncError("grammar.peg.go: unexpected token %r" % (v,))


def _go_expr(node):
    """composite literal of a pigeon node -> the same tree form as the .peg parser builds"""
    _, ty, f, elems = node
    if ty == "actionExpr":
        return ("action", f["run"][1], _go_expr(f["expr"]))
    if ty == "seqExpr":
        return ("seq", [_go_expr(e) for e in f["exprs"][3]])
    if ty == "choiceExpr":
        return ("choice", [_go_expr(e) for e in f["alternatives"][3]])
    if ty == "labeledExpr":
        return ("label", f["label"], _go_expr(f["expr"]))
    if ty in ("zeroOrMoreExpr", "oneOrMoreExpr", "zeroOrOneExpr", "andExpr", "notExpr"):
        tag = {"zeroOrMoreExpr": "star", "oneOrMoreExpr": "plus", "zeroOrOneExpr": "opt", "andExpr": "and", "notExpr": "not"}[ty]
        return (tag, _go_expr(f["expr"]))
    if ty == "ruleRefExpr":
        return ("ref", f["name"])
    if ty == "litMatcher":
        return ("lit", f["val"], bool(f.get("ignoreCase", False)))
    if ty == "anyMatcher":
        return ("any",)
    if ty == "charClassMatcher":
        chars = list(f["chars"][3]) if "chars" in f else []
        ranges = list(f["ranges"][3]) if "ranges" in f else []
        if "classes" in f:
            raise SyncError("unicode classes are not supported by this check")
        return ("class", f["val"], bool(f.get("ignoreCase", False)), chars, ranges, bool(f.get("inverted", False)))
    raise SyncError("grammar.peg.go: unknown node type %s" % ty)


def parse_go(text):
    a = text.index("var g = &grammar{")
    b = _skip_go_block(text, text.index("{", a))
    lit = _GoLit(_go_tokens(text[a + len("var g = "):b])).value()
    rules = []
    for r in lit[2]["rules"][3]:
        f = r[2]
        rules.append((f["name"], _go_expr(f["expr"])))
    funcs = {}
    for m in re.finditer(r"^func \(c \*current\) on(\w+)\(([^)]*)\) \(interface\{\}, error\) \{", text, re.M):
        j = _skip_go_block(text, m.end() - 1)
        params = [p.strip() for p in m.group(2).replace("interface{}", "").split(",") if p.strip()]
        funcs[m.group(1)] = (params, text[m.end():j - 1])
    imp = text.index("import (")
    imp_end = text.index("\n)", imp) + 2
    return rules, funcs, text[imp_end:a]


# ---------------------------------------------------------------------------------------------------
# comparison

def _show(e):
    k = e[0]
    if k == "lit":
        return "%r%s" % (e[1], "i" if e[2] else "")
    if k == "class":
        return e[1]
    if k == "ref":
        return e[1]
    return k


def compare(peg_text, go_text):
    diffs = []
    try:
        init, prules = _Peg(peg_text).grammar()
        grules, funcs, go_init = parse_go(go_text)
    except (SyncError, ValueError, KeyError, IndexError) as e:
        return ["cannot compare the two files: %s: %s" % (type(e).__name__, e)]
    pn, gn = [n for n, _ in prules], [n for n, _ in grules]
    if pn != gn:
        only_p = [n for n in pn if n not in gn]
        only_g = [n for n in gn if n not in pn]
        diffs.append("rule lists differ: only in grammar.peg %s, only in grammar.peg.go %s%s" % (
            only_p, only_g, "" if only_p or only_g else " (same names, different order)"))
    gmap = dict(grules)
    used_funcs = set()
    for name, pe in prules:
        if name not in gmap:
            continue
        counter = [0]
        labels_stack = [[]]

        def walk(p, g, path):
            counter[0] += 1
            num = counter[0]
            where = "rule %s, node %d (%s)" % (name, num, path)
            if p[0] != g[0]:
                diffs.append("%s: grammar.peg has %s, grammar.peg.go has %s" % (where, _show(p), _show(g)))
                return
            k = p[0]
            if k == "action":
                fname = "%s%d" % (name, num)
                if g[1] != fname:
                    diffs.append("%s: action function is callon%s, pigeon would name it callon%s" % (where, g[1], fname))
                # pigeon: an action's parameters are the labels added so far to the argument set it sits in (a rule
                # and a labelled expression open a set; an action does not)
                walk(p[2], g[2], path + "/action")
                labels = list(labels_stack[-1])
                fn = funcs.get(g[1])
                used_funcs.add(g[1])
                if fn is None:
                    diffs.append("%s: grammar.peg.go has no func on%s" % (where, g[1]))
                else:
                    if fn[0] != labels:
                        diffs.append("%s: on%s takes %s, the labels in scope are %s" % (where, g[1], fn[0], labels))
                    if _squash(fn[1]) != _squash(p[1]):
                        diffs.append("%s: the action code differs between grammar.peg and func on%s" % (where, g[1]))
            elif k in ("seq", "choice"):
                if len(p[1]) != len(g[1]):
                    diffs.append("%s: %s of %d elements in grammar.peg (%s), of %d in grammar.peg.go (%s)" % (
                        where, k, len(p[1]), " ".join(_show(x) for x in p[1]), len(g[1]), " ".join(_show(x) for x in g[1])))
                    return
                for i, (a, b) in enumerate(zip(p[1], g[1])):
                    walk(a, b, "%s/%s[%d]" % (path, k, i))
            elif k == "label":
                if p[1] != g[1]:
                    diffs.append("%s: label %s in grammar.peg, %s in grammar.peg.go" % (where, p[1], g[1]))
                labels_stack[-1].append(p[1])
                # a labelled expression opens its own scope for labels
                labels_stack.append([])
                walk(p[2], g[2], path + "/" + p[1])
                labels_stack.pop()
            elif k in ("star", "plus", "opt", "and", "not"):
                walk(p[1], g[1], path + "/" + k)
            elif k == "ref":
                if p[1] != g[1]:
                    diffs.append("%s: refers to rule %s in grammar.peg, %s in grammar.peg.go" % (where, p[1], g[1]))
                if p[1] not in pn:
                    diffs.append("%s: rule %s is not defined" % (where, p[1]))
            elif k == "lit":
                if p[1:] != g[1:]:
                    diffs.append("%s: literal %s in grammar.peg, %s in grammar.peg.go" % (where, _show(p), _show(g)))
            elif k == "class":
                if p[1] != g[1] or p[2] != g[2]:
                    diffs.append("%s: class %s in grammar.peg, %s in grammar.peg.go" % (where, p[1], g[1]))
                else:
                    try:
                        chars, ranges, inv = class_fields(p[1], p[2])
                    except SyncError as e:
                        diffs.append("%s: %s" % (where, e))
                        return
                    if (chars, ranges, inv) != (g[3], g[4], g[5]):
                        diffs.append("%s: class %s means chars %s ranges %s inverted %s; grammar.peg.go has chars %s ranges %s "
                                     "inverted %s" % (where, p[1], chars, ranges, inv, g[3], g[4], g[5]))

        walk(pe, gmap[name], "")
    for fname in sorted(set(funcs) - used_funcs):
        diffs.append("grammar.peg.go: func on%s belongs to no action of the grammar" % fname)
    if init is not None:
        k = init.find("import (")
        body = init[init.index("\n", init.index(")", k)):] if k >= 0 else re.sub(r"^\s*package\s+\w+", "", init)
        if _squash(body) != _squash(go_init):
            diffs.append("the initial code block of grammar.peg differs from the text of grammar.peg.go between its imports "
                         "and `var g`")
    return diffs
