"""C04 — FContext headers survive the wire unchanged in the documented v0 layout."""
import struct

import vlib
from props import headers_common as hc


def gen_cases(ctx, n_go, n_py, n_bad):
    rng = ctx.rng
    go, py = [], []
    for i in range(n_go):
        m = hc.rand_map(rng, big=(i % 25 == 0))
        pairs = list(m.items())
        rng.shuffle(pairs)
        payload = hc.rand_bytes(rng, rng.randrange(0, 200), 0)
        kind = ["write", "write_ctx", "write_resp", "read_stream", "read_frame", "add", "read_req"][i % 7]
        cap = rng.choice([0, 0, 1, 7, 64])
        if kind in ("write", "write_ctx", "write_resp"):
            if kind != "write":
                pairs = [(k, v) for k, v in pairs if k not in (b"_opid", b"_cid", b"_timeout")]
            go.append({"kind": kind, "pairs": pairs, "req": {"op": kind, "pairs": hc.hexpairs(pairs)}})
        elif kind == "read_req":
            # a request header block as ANY peer may send it (with an op id; with or without _cid / _timeout), read into an
            # FContext through FProtocol.ReadRequestHeader: the context holds exactly the headers sent (op id renewed)
            pairs = [(k, v) for k, v in pairs if k not in (b"_opid", b"_cid", b"_timeout")]
            pairs.append((b"_opid", str(rng.randrange(0, 1 << 40)).encode()))
            if rng.random() < 0.5:
                pairs.append((b"_cid", hc.rand_bytes(rng, rng.randrange(1, 12), 1)))
            if rng.random() < 0.5:
                pairs.append((b"_timeout", str(rng.randrange(0, 100000)).encode()))
            rng.shuffle(pairs)
            b = hc.ref_marshal(pairs) + payload
            go.append({"kind": kind, "pairs": pairs, "payload": payload, "bytes": b, "req": {"op": kind, "bytes": b.hex()}})
        elif kind in ("read_stream", "read_frame"):
            b = hc.ref_marshal(pairs) + payload
            rq = {"op": kind, "bytes": b.hex(), "cap": cap}
            if kind == "read_stream" and rng.random() < 0.5:
                rq["chunk"] = rng.choice([1, 2, 3, 5, 17, 100, 1000])     # the connection delivers the stream in pieces
            go.append({"kind": kind, "pairs": pairs, "payload": payload, "bytes": b, "req": rq})
        else:
            body = hc.ref_marshal(pairs) + payload
            frame = struct.pack(">I", len(body)) + body
            extra = hc.rand_map(rng, maxn=6)
            ex = list(extra.items())
            # make some new headers overwrite existing ones
            for k, _ in pairs[:2]:
                if rng.random() < 0.5:
                    ex.append((k, hc.rand_bytes(rng, 3, 1)))
            ex = list(dict(ex).items())
            go.append({"kind": "add", "pairs": pairs, "payload": payload, "bytes": frame, "extra": ex,
                       "req": {"op": "add", "bytes": frame.hex(), "pairs": hc.hexpairs(ex), "cap": cap}})
    for i in range(n_py):
        m = hc.rand_map(rng, utf8_only=True, big=(i % 25 == 0))
        pairs = list(m.items())
        rng.shuffle(pairs)
        payload = hc.rand_bytes(rng, rng.randrange(0, 100), 0)
        kind = ["write", "read", "decode_frame"][i % 3]
        if kind == "write":
            py.append({"kind": "py_write", "pairs": pairs, "req": {"op": "write", "pairs": hc.hexpairs(pairs)}})
        else:
            b = hc.ref_marshal(pairs) + payload
            py.append({"kind": "py_" + kind, "pairs": pairs, "payload": payload, "bytes": b,
                       "req": {"op": kind, "bytes": b.hex()}})
    # a small malformed stream (model validation; C05 owns the big one)
    for i in range(n_bad):
        m = hc.rand_map(rng, utf8_only=True, maxn=3)
        b = bytearray(hc.ref_marshal(list(m.items())) + b"xyz")
        r = rng.random()
        if r < 0.4 and len(b) > 0:
            b = b[:rng.randrange(0, len(b))]
        elif r < 0.8:
            pos = rng.randrange(0, min(len(b), 13))
            b[pos] = rng.choice([0, 1, 0x7f, 0x80, 0xff])
        else:
            b[1:5] = struct.pack(">I", rng.choice([0, 1, 7, 8, len(b), 2**31 - 1, 2**31, 2**32 - 1]))
        b = bytes(b)
        which = i % 4
        if which < 2:
            kind = ["read_stream", "read_frame"][which]
            go.append({"kind": kind, "bad": True, "bytes": b, "req": {"op": kind, "bytes": b.hex(), "cap": 0}})
        else:
            kind = ["read", "decode_frame"][which - 2]
            py.append({"kind": "py_" + kind, "bad": True, "bytes": b, "req": {"op": kind, "bytes": b.hex()}})
    return go, py


KINDNUM = {"write": 1, "write_ctx": 1, "write_resp": 1, "read_stream": 2, "read_frame": 3, "add": 4,
           "py_write": 5, "py_read": 6, "py_decode_frame": 7}


def oracle(case, resp):
    """Direct statement of C04 on the implementation's observation, no model. Returns None or a string."""
    k = case["kind"]
    if case.get("bad"):
        if k.startswith("py_"):
            return None
        if resp.get("code", 0) >= 100:
            return "receiver crashed: %s" % resp.get("panic")
        return None
    if resp.get("code") != 0:
        return "well-formed input rejected or crashed: code %s %s %s" % (resp.get("code"), resp.get("panic", ""), resp.get("msg", ""))
    if resp.get("earlier_changed"):
        return ("the header block an earlier marshalHeaders call returned (%s...) changed when this map was marshalled: results "
                "of the writer are not independent values" % resp["earlier_changed"][:40])
    want = dict(case["pairs"])
    if k == "read_req":
        got = dict(hc.unhexpairs(resp.get("map")))
        w2 = {kk: vv for kk, vv in want.items() if kk != b"_opid"}
        g2 = {kk: vv for kk, vv in got.items() if kk != b"_opid"}
        if g2 != w2:
            extra = sorted(set(g2) - set(w2))
            return ("the FContext read from a request holds other headers than were sent (not sent but present: %r; lost or changed: %r)"
                    % (extra, sorted(kk for kk in w2 if g2.get(kk) != w2[kk])))
        rh = dict(hc.unhexpairs(resp.get("order")))
        if rh.get(b"_opid") != want[b"_opid"]:
            return "the response headers of the received context do not carry the request's op id"
        if bytes.fromhex(resp.get("rest", "")) != case["payload"]:
            return "payload after the header block not left intact"
        return None
    if k in ("write", "write_ctx", "write_resp", "py_write"):
        out = bytes.fromhex(resp["out"])
        if k in ("write_ctx", "write_resp"):
            full = dict(hc.unhexpairs(resp.get("order")))
            for kk, vv in want.items():
                if full.get(kk) != vv:
                    return "context lost header %r" % kk
            want = full
        p = hc.ref_parse(out)
        if p is None:
            return "written bytes are not a well-formed v0 header block"
        pairs, rest = p
        if rest:
            return "trailing bytes after the header block"
        if dict(pairs) != want or len(pairs) != len(want):
            return "written headers differ from the map"
        if out != hc.ref_marshal(pairs):
            return "layout differs from documentation/protocol.md"
        return None
    if k in ("read_stream", "read_frame", "py_read", "py_decode_frame"):
        got = dict(hc.unhexpairs(resp.get("map")))
        if got != want:
            return "decoded map differs"
        if k in ("read_stream", "py_read") and bytes.fromhex(resp.get("rest", "")) != case["payload"]:
            return "payload after the headers was disturbed"
        return None
    if k == "add":
        out = bytes.fromhex(resp["out"])
        if len(out) < 4 or struct.unpack(">I", out[:4])[0] != len(out) - 4:
            return "frame size prefix wrong after addHeadersToFrame"
        p = hc.ref_parse(out[4:])
        if p is None:
            return "frame not well formed after addHeadersToFrame"
        pairs, rest = p
        exp = dict(case["pairs"])
        exp.update(dict(case["extra"]))
        if dict(pairs) != exp or len(pairs) != len(exp):
            return "headers after addHeadersToFrame are not existing+new"
        if rest != case["payload"]:
            return "payload changed by addHeadersToFrame"
        return None
    return "unknown kind"


def judge_case(case, resp):
    k = case["kind"]
    kn = KINDNUM[k]
    if kn == 1:
        inp = hc.unhexpairs(resp.get("order")) if k != "write" else case["pairs"]
        return [1, [[a, b] for a, b in inp], bytes.fromhex(resp.get("out", ""))]
    if kn == 5:
        return [5, [[a, b] for a, b in hc.unhexpairs(resp.get("order"))], bytes.fromhex(resp.get("out", ""))]
    if kn in (2, 3, 6, 7):
        return [kn, case["bytes"], resp.get("code", 0), [[a, b] for a, b in hc.unhexpairs(resp.get("map"))],
                bytes.fromhex(resp.get("rest", "") or "")]
    if kn == 4:
        return [4, case["bytes"], [[a, b] for a, b in case["extra"]], resp.get("code", 0),
                bytes.fromhex(resp.get("out", "") or "")]
    raise ValueError(k)


def replay_of(case, resp):
    r = {"kind": case["kind"], "request": case["req"], "observed": resp}
    return r


def run(ctx, br):
    quick = ctx.tier == "quick"
    n_go, n_py, n_bad = (360, 150, 90) if quick else (12000, 5000, 3000)
    go, py = gen_cases(ctx, n_go, n_py, n_bad)
    go_resps = hc.run_go_headers([c["req"] for c in go])
    py_resps = hc.run_py_headers([c["req"] for c in py])
    cases = go + py
    resps = go_resps + py_resps
    # the Python model does not describe UTF-8 decoding: mutated inputs that are not valid UTF-8 are out of its scope
    keep = [i for i, (c, r) in enumerate(zip(cases, resps))
            if not (c.get("bad") and str(r.get("msg", "")).startswith("UnicodeDecodeError"))]
    cases = [cases[i] for i in keep]
    resps = [resps[i] for i in keep]
    assert len(cases) == len(resps), (len(cases), len(resps))
    oracle_fail = 0
    for c, r in zip(cases, resps):
        why = oracle(c, r)
        if why:
            oracle_fail += 1
            ctx.violation("C04 oracle: " + why, replay_of(c, r), signature=None)
    judged = [i for i, c in enumerate(cases) if c["kind"] in KINDNUM]       # read_req: direct oracle only (its model is C09's)
    jv = vlib.run_judge(ctx.rundir, "JHeaders", "judge", [judge_case(cases[i], resps[i]) for i in judged])
    verdicts = [0] * len(cases)
    for i, v in zip(judged, jv):
        verdicts[i] = v
    mism = [i for i, v in enumerate(verdicts) if v < 0]
    for i in mism:
        why = oracle(cases[i], resps[i])
        rep = replay_of(cases[i], resps[i])
        if not why:
            rep["no_failing_input_found"] = True
            rep["broken"] = "correspondence JHeaders.judge (model Model/Headers.v disagrees with implementation on this input)"
            ctx.violation("C04 correspondence: model and implementation disagree", rep)
    tags = {}
    for c, v in zip(cases, verdicts):
        if v >= 0 and not c.get("bad"):
            tags.setdefault((c["kind"], v, len(c.get("pairs", [])) > 1), 0)
            tags[(c["kind"], v, len(c.get("pairs", [])) > 1)] += 1
    sizes = [len(c.get("bytes", b"")) for c in cases]
    hist = {}
    for c in cases:
        hist[c["kind"] + ("/malformed" if c.get("bad") else "")] = hist.get(c["kind"] + ("/malformed" if c.get("bad") else ""), 0) + 1
    distinct = len({(c["kind"], c["req"].get("bytes") or str(c["req"].get("pairs"))) for c in cases
                    if not c.get("bad") and len(c.get("pairs", [])) >= 1})
    ctx.assumptions += ["total header size < 2^31 (int32 size field); Go map iteration order is arbitrary and compared up to permutation",
                        "Python codec exercised on valid UTF-8 names/values only"]
    return {
        "evaluations": len(cases),
        "distinct_nontrivial": distinct,
        "rule": "seeded header maps (0..40 entries, lengths 0..70000, uniform/ascii/multi-byte UTF-8), payload 0..200 bytes, "
                "through Go writers (marshalHeaders, WriteRequestHeader, WriteResponseHeader), Go readers (stream, frame), "
                "addHeadersToFrame and the Python codec; non-trivial = well-formed case with >= 1 header; distinct by (kind, input)",
        "traces_validated_against_impl": len([v for v in verdicts if v >= 0]),
        "judge_mismatches": len(mism),
        "oracle_failures": oracle_fail,
        "model_branch_tags": len(tags),
        "input_histogram": hist,
        "max_input_bytes": max(sizes) if sizes else 0,
        "samples": [replay_of(cases[i], resps[i]) for i in (0, 3, 5, len(go)) if i < len(cases)][:4],
    }
