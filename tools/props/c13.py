"""C13 — every call returns within its FContext timeout."""
import os

import vlib
from props import c01
from props import headers_common as hc

HARNESS_BINS = ["vh_reg"]
ALLOW_US = 150000


def run(ctx, br):
    rng = ctx.rng
    quick = ctx.tier == "quick"
    # (1) logic: schedules with short timeouts / send failures, replayed on the model
    cov = c01.run(ctx, br, profiles=["timeouts", "timeouts", "senderr", "mixed"], prop="C13",
                  nats_profiles=["timeouts", "puberr", "timeouts", "mixed", "noresp", "status"])
    # (2) wall clock: every transport x stall pattern x timeout
    touts = [500, 1000, 2000, 5000, 20000, 50000, 300000] if quick else [300, 500, 999, 1000, 2000, 5000, 20000, 50000, 200000]
    reqs = []
    for t in touts:
        for tr, stalls in (("adapter", ["silent", "late", "write", "flush", "closing"]), ("nats", ["silent", "late", "link"]), ("http", ["silent", "late", "body", "midbody"])):
            for st in stalls:
                for oneway in ([False, True] if st in ("write", "flush") or (tr == "nats" and st == "link") else [False]):
                    reps = 1 if quick else 3
                    for _ in range(reps):
                        late = t // 1000 + rng.choice([20, 60, 150])
                        if st == "link" and oneway:
                            # the link stalls for much LONGER than the timeout: a oneway is buffered and returns at once
                            late = t // 1000 * 3 + 400
                        elif st == "link":
                            if t < 20000:
                                continue          # a link stall shorter than the timeout needs a timeout of some size
                            late = max(5, (t // 1000) * rng.choice([40, 60, 80]) // 100)
                        reqs.append({"transport": tr, "stall": st, "timeout_us": t, "late_ms": late, "oneway": oneway})
    # HTTP: the peer takes the request, is silent for 3/4 of the timeout and hangs up without answering (every time): the
    # call is over, with an error, when the connection is - and in any case within its timeout
    for t in ([800000, 1200000] if quick else [700000, 800000, 1000000, 1200000, 2000000]):
        for oneway in (False, True):
            reqs.append({"transport": "http", "stall": "hangup", "timeout_us": t, "late_ms": t * 3 // 4000, "oneway": oneway})
    if not quick:
        for _ in range(200):
            t = rng.randrange(300, 120000)
            tr = rng.choice(["adapter", "adapter", "nats", "http"])
            st = rng.choice(["silent", "late"] + (["write", "flush"] if tr == "adapter" else []) + (["body", "midbody"] if tr == "http" else []))
            reqs.append({"transport": tr, "stall": st, "timeout_us": t, "late_ms": t // 1000 + rng.choice([5, 30, 100]),
                         "oneway": st in ("write", "flush") and rng.random() < 0.5})
    rc, resps, err = hc.run_lines([os.path.join(vlib.BIN, "vh_reg"), "timing"], reqs, timeout=1500)
    if len(resps) != len(reqs):
        ctx.violation("C13: timing harness died", {"request": reqs[len(resps)] if len(resps) < len(reqs) else None,
                                                   "stderr": err[-1000:]})
        reqs = reqs[:len(resps)]
    worst = 0
    late_n = 0
    not_reproduced = 0

    def verdict(q, r):
        over = r.get("elapsed_us", 0) - q["timeout_us"]
        if r.get("hang"):
            return r["hang"]
        if over > ALLOW_US:
            return "returned %d us after its %d us timeout" % (over, q["timeout_us"])
        if q.get("oneway") and q["transport"] == "nats" and r.get("code") == 0:
            return None       # a oneway over NATS is handed to the connection's buffer and returns (nil) without waiting for the link
        if q["stall"] == "hangup":
            if r.get("code") == 0:
                return "the peer hung up without answering, yet the call reported success"
            return None       # the error is the connection's (EOF / reset), or TIMED_OUT
        if r.get("code") != 3:
            return "no response arrived in time but the call reported class %s (%s), not TIMED_OUT" % (r.get("code"), r.get("msg"))
        if q["transport"] != "http" and r.get("reglen") != 0:
            return "registration left behind after the call returned (%s entries)" % r.get("reglen")
        return None

    for q, r in zip(reqs, resps):
        why = verdict(q, r)
        if why:
            # wall-clock measurement on a shared machine: a case that failed is measured again, alone, twice; it is
            # reported when it fails again (a defect on this path is systematic; scheduling noise is not)
            again = []
            for _ in range(2):
                _, rr, _ = hc.run_lines([os.path.join(vlib.BIN, "vh_reg"), "timing"], [q], timeout=120)
                again.append(verdict(q, rr[0]) if len(rr) == 1 else "timing harness died")
            if not any(again):
                not_reproduced += 1
                why = None
        over = r.get("elapsed_us", 0) - q["timeout_us"]
        if why or over <= ALLOW_US:
            worst = max(worst, over)
        if why:
            late_n += 1
            ctx.violation("C13 oracle: " + why, {"request": q, "observed": r})
    cov["evaluations"] += len(reqs)
    cov["timing_cases"] = len(reqs)
    cov["timing_failures"] = late_n
    cov["timing_failures_not_reproduced_alone"] = not_reproduced
    cov["worst_overshoot_us"] = worst
    cov["allowance_us"] = ALLOW_US
    cov["rule"] = ("(1) " + cov["rule"] + " (2) wall clock: Request/Oneway on adapter / NATS (embedded server) / HTTP (httptest) against "
                   "peers that are silent, late by d, whose Write / Flush block, a transport whose Close is stalled by another goroutine meanwhile, or (HTTP) that send the response headers and stall before or inside the body; timeouts %s us; the call must return no later than "
                   "timeout + %d us, report TIMED_OUT, and leave the registry empty" % (touts, ALLOW_US))
    ctx.assumptions.append("wall-clock punctuality (Go timers, scheduler, net/http and nats.go honouring contexts) is measured, not proved")
    return cov
