"""C06 — the inbound path never stalls: no head-of-line blocking."""
from props import c01

HARNESS_BINS = ["vh_reg"]


def run(ctx, br):
    # adversarial prefixes dominate: duplicates xN, unknown ids, late frames, callers held between result and unregister
    cov = c01.run(ctx, br, profiles=["wedge", "wedge", "mixed", "wedge", "timeouts"], prop="C06",
                  nats_profiles=["wedge", "status", "wedge", "noresp", "mixed", "wedge", "timeouts"])
    cov["rule"] = ("as C01, weighted towards adversarial prefixes (several frames for one op id while its caller is held between "
                   "receiving the result and unregistering, unknown op ids, late frames); (on NATS also status 503 messages, from the harness and from the server, and messages the handler must discard); "
                   "after every schedule a FRESH request is issued on the same transport and must get its own response within 1 s; a reader that does not return from the "
                   "channel send within 1 s is reported as head-of-line blocking; " + cov["rule"])
    return cov
