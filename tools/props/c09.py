"""C09 — the request context travels with the call and back (context level, through the real FProtocol)."""
import json

import vlib
from props import ctx_common as cc

HARNESS_BINS = ["vh_ctx"]


def hdr(pairs, name):
    for k, v in pairs or []:
        if bytes.fromhex(k) == name:
            return bytes.fromhex(v)
    return None


def oracle(ops, resp):
    """Direct statement on the observations of one call."""
    dumps = resp["dumps"]
    for d in dumps:
        if d.get("err") and "payload" in d["err"]:
            return d["err"]
    ctx_count = 1
    for step, (o, d) in enumerate(zip(ops, dumps)):
        cs = d["ctxs"]
        prev = dumps[step - 1]["ctxs"] if step else []
        if o["k"] == 10:
            if d.get("err"):
                if hdr(prev[o["i"]]["req"], b"_opid") is not None:
                    return "step %d: request with an op id rejected: %s" % (step, d["err"])
                continue
            caller, srv = prev[o["i"]], cs[-1]
            want = {k: v for k, v in caller["req"] if bytes.fromhex(k) != b"_opid"}
            got = {k: v for k, v in srv["req"] if bytes.fromhex(k) != b"_opid"}
            if want != got:
                return "step %d: handler does not see exactly the caller's request headers" % step
            if srv["timeout_ns"] != caller["timeout_ns"]:
                return "step %d: timeout not propagated (%d vs %d)" % (step, srv["timeout_ns"], caller["timeout_ns"])
            new_id, old_id = hdr(srv["req"], b"_opid"), hdr(caller["req"], b"_opid")
            if new_id is None or new_id == old_id or any(hdr(c["req"], b"_opid") == new_id for c in prev):
                return "step %d: handler context has no fresh op id" % step
            if hdr(srv["resp"], b"_opid") != old_id:
                return "step %d: response does not carry the request's op id" % step
            cid = hdr(caller["req"], b"_cid")
            if cid and hdr(srv["resp"], b"_cid") != cid:
                return "step %d: response does not carry the correlation id" % step
            if cs[o["i"]] != caller:
                return "step %d: sending changed the caller's context" % step
        elif o["k"] == 12:
            if d.get("err"):
                return "step %d: call through the processor failed: %s" % (step, d["err"])
            want_reply = "exception:100" if o.get("_over") else "ok"
            if d.get("reply") != want_reply:
                return "step %d: reply is %r, expected %r" % (step, d.get("reply"), want_reply)
            caller_before, caller_after, srv = prev[o["i"]], cs[o["i"]], cs[-1]
            want = {k: v for k, v in caller_before["req"] if bytes.fromhex(k) != b"_opid"}
            got = {k: v for k, v in srv["req"] if bytes.fromhex(k) != b"_opid"}
            if want != got:
                return "step %d: handler does not see exactly the caller's request headers" % step
            for k, v in o["hadd"]:
                if bytes.fromhex(k) == b"_opid":
                    continue
                last = [vv for kk, vv in o["hadd"] if kk == k][-1]
                if hdr(caller_after["resp"], bytes.fromhex(k)) != bytes.fromhex(last):
                    return ("step %d: response header %s set by the handler is not visible to the caller (reply: %s)"
                            % (step, k, d.get("reply")))
            cid = hdr(caller_before["req"], b"_cid")
            handler_set_cid = any(bytes.fromhex(k) == b"_cid" for k, _ in o["hadd"])
            if cid and not handler_set_cid and hdr(caller_after["resp"], b"_cid") != cid:
                return "step %d: the reply (%s) does not carry the correlation id" % (step, d.get("reply"))
        elif o["k"] == 11:
            if d.get("err"):
                return "step %d: reply rejected: %s" % (step, d["err"])
            srv, before, after = prev[o["i"]], prev[o["u"]], cs[o["u"]]
            for k, v in srv["resp"]:
                if bytes.fromhex(k) == b"_opid":
                    continue
                if hdr(after["resp"], bytes.fromhex(k)) != bytes.fromhex(v):
                    return "step %d: response header %s set by the handler is not visible to the caller" % (step, k)
            if hdr(after["resp"], b"_opid") != hdr(before["resp"], b"_opid"):
                return "step %d: reply displaced the caller's response op id" % step
            if after["req"] != before["req"]:
                return "step %d: reply changed the caller's request headers" % step
            for k, v in before["resp"]:
                if hdr(srv["resp"], bytes.fromhex(k)) is None and hdr(after["resp"], bytes.fromhex(k)) != bytes.fromhex(v):
                    return "step %d: reply dropped a response header the caller already had" % step
    return None


def run_hammer(ctx, runs):
    """Back-to-back invocations of ONE frugal.Method (the reflective layer every generated client method, processor function
    and subscriber callback goes through, with 0..3 pass-through middlewares) from 16 goroutines, each with an FContext of
    its own: the handler must see the context of its own invocation, the caller its handler's result and response header."""
    import os
    import subprocess
    tot = wrong = 0
    for i in range(runs):
        q = {"goroutines": 16, "calls": 12000, "middleware": i % 4}
        try:
            p = subprocess.run([os.path.join(vlib.BIN, "vh_ctx"), "hammer"], input=json.dumps(q).encode(), capture_output=True, timeout=300)
            r = json.loads(p.stdout.decode() or "{}")
        except (subprocess.TimeoutExpired, ValueError) as e:
            r = {"panic": "hammer run failed: %s" % e}
        if not r.get("invocations") and not r.get("panic"):
            r["panic"] = "no result: " + p.stderr.decode("utf8", "replace")[-400:]
        tot += r.get("invocations", 0)
        if r.get("panic") or r.get("wrong_context") or r.get("wrong_result"):
            wrong += 1
            ctx.violation("C09 oracle (one Method under concurrent invocations): %s" % (
                r.get("panic") or "%d of %d handler invocations saw the FContext of another invocation, %d callers got another "
                "call's result or miss their handler's response header; first: %s" % (
                    r.get("wrong_context", 0), r.get("invocations", 0), r.get("wrong_result", 0), r.get("first"))),
                {"request": q, "observed": r})
    return {"runs": runs, "invocations": tot, "failed_runs": wrong}


def run_concurrent(ctx, nsessions):
    """K two-way calls in flight at once through one client over one adapter transport: every caller's FContext comes
    back with ITS handler's response headers and ITS correlation id, and its handler saw ITS request headers."""
    import os
    from props import headers_common as hc
    rng = ctx.rng
    reqs = []
    for si in range(nsessions):
        k = rng.randrange(2, 9)
        same_size = rng.random() < 0.5          # equal-sized replies: the case in which a reused buffer goes unnoticed
        size = rng.randrange(0, 300)
        calls = []
        for i in range(k):
            cid = ("s%dc%d-" % (si, i)).encode() + cc.rval(rng)[:6]
            calls.append({"cid": cid.hex(),
                          "req": [[("q%d" % j).encode().hex(), cc.rval(rng).hex()] for j in range(rng.randrange(0, 3))],
                          "hadd": [[("h%d" % j).encode().hex(), (b"%d/%d:" % (si, i) + cc.rval(rng)).hex()] for j in range(rng.randrange(1, 4))],
                          "size": size if same_size else rng.randrange(0, 3000),
                          "delay": rng.choice([0, 0, 50, 300]),
                          "onward": rng.random() < 0.35})
        rq = {"calls": calls, "rounds": 3}
        if si % 4 == 3:
            # FNatsServer with its default event handlers and ONE worker: later requests wait in its queue behind slow handlers
            rq["server"] = "nats"
            for c in calls:
                c["delay"] = rng.choice([0, 2000, 5000])
                c["onward"] = False
        reqs.append(rq)
    rc, resps, err = hc.run_lines([os.path.join(vlib.BIN, "vh_ctx"), "concurrent"], reqs, timeout=900)
    ncalls = bad = 0
    if len(resps) != len(reqs):
        ctx.violation("C09 (concurrent calls): the harness process died", {"request": reqs[len(resps)] if len(resps) < len(reqs) else None,
                                                                            "stderr": err[-1200:]})
    for q, r in zip(reqs, resps):
        if r.get("err"):
            ctx.violation("C09 (concurrent calls): session could not be set up: %s" % r["err"], {"request": q})
            continue
        for rnd, outs in enumerate(r.get("rounds") or []):
            for c, o in zip(q["calls"], outs):
                ncalls += 1
                why = None
                want = {k: v for k, v in c["hadd"]}
                want[b"_cid".hex()] = c["cid"]
                if c.get("onward"):
                    # the handler called on with the context it was given: what the leaf answered travels back through it
                    want[b"leaf".hex()] = c["cid"]
                got = {k: v for k, v in o.get("resp") or []}
                seen = {k: v for k, v in o.get("seen") or []}
                if o.get("err"):
                    why = "call failed: %s" % o["err"]
                elif got != want:
                    why = "the caller's response headers are %s, its handler set %s" % (
                        {bytes.fromhex(k): bytes.fromhex(v) for k, v in got.items()},
                        {bytes.fromhex(k): bytes.fromhex(v) for k, v in want.items()})
                elif any(seen.get(k) != v for k, v in c["req"]) or seen.get(b"_cid".hex()) != c["cid"]:
                    why = "the handler did not see the caller's request headers"
                elif seen.get(b"_timeout".hex()) != b"3000".hex():
                    why = "the handler's context carries the timeout %r, the caller placed 3000 ms" % bytes.fromhex(seen.get(b"_timeout".hex()) or "")
                if why:
                    bad += 1
                    ctx.violation("C09 (%d calls in flight over one %s, round %d): %s" % (
                        len(q["calls"]), "NATS transport to a one-worker FNatsServer" if q.get("server") == "nats" else "adapter transport", rnd, why),
                                  {"request": q, "call": c, "observed": o})
    return {"sessions": len(reqs), "calls": ncalls, "failures": bad,
            "rule": "2..8 calls in flight at once through one FStandardClient over one adapter transport (loopback TCP, FSimpleServer, "
                    "FBaseProcessor), 3 rounds, own correlation id / request headers / handler response headers per call, equal-sized "
                    "replies in half of the sessions; a third of the handlers make an onward two-way call WITH the context they were given between "
                    "their response headers; every fourth session runs over an FNatsServer with one worker and its default event handlers (requests queue behind slow handlers; the timeout the handler sees is the caller's) (two hops: what the leaf sets and what the handler sets before and after must all reach the first caller); direct oracle only"}


def run(ctx, br):
    rng = ctx.rng
    quick = ctx.tier == "quick"
    n = 400 if quick else 8000
    seqs = [cc.gen_call(rng, reserved_p=(0.0 if i % 3 else 0.15)) for i in range(n)]
    # calls through a real FBaseProcessor with a bounded output buffer (normal replies and RESPONSE_TOO_LARGE error replies)
    seqs += [cc.gen_processor_call(rng) for _ in range(n // 3)]
    # a few requests whose op id was removed by the caller (must be rejected) are produced by reserved writes
    resps = cc.run_ctx([{"ops": s} for s in seqs])
    bad = 0
    for s, r in zip(seqs, resps):
        if r.get("panic"):
            bad += 1
            ctx.violation("C09: context propagation crashed: %s" % r["panic"], {"ops": s})
            continue
        why = oracle(s, r)
        if why:
            bad += 1
            ctx.violation("C09 oracle: " + why, {"ops": s, "observed_tail": r["dumps"][-1]})
    ok = [(s, r) for s, r in zip(seqs, resps) if not r.get("panic")]
    verdicts = vlib.run_judge(ctx.rundir, "JContext", "judge", [cc.tok_case(s, r) for s, r in ok])
    mism = 0
    for (s, r), v in zip(ok, verdicts):
        if v < 0:
            mism += 1
            rep = {"ops": s, "observed": r["dumps"][-1], "start": r["start"]}
            if not oracle(s, r):
                rep["no_failing_input_found"] = True
                rep["broken"] = "correspondence JContext.judge (send_request/send_response of Model/Context.v vs FProtocol)"
            ctx.violation("C09 correspondence: model and implementation disagree on a call", rep)
    # several calls in flight at once over ONE adapter transport (TCP, FSimpleServer, FBaseProcessor): direct oracle only
    conc_stats = run_concurrent(ctx, 25 if quick else 400)
    hammer_stats = run_hammer(ctx, 4 if quick else 40)
    nhdr = [sum(1 for o in s if o["k"] == 2) for s in seqs]
    ctx.assumptions += ["context level: the header block written and read by the real FProtocol over a memory transport; the same bytes "
                        "travel on every transport and protocol (C04), end-to-end calls through generated code are C03",
                        "header block below 2^31 bytes"]
    return {
        "concurrent": conc_stats,
        "method_hammer": hammer_stats,
        "evaluations": len(seqs) + conc_stats["calls"],
        "distinct_nontrivial": len({json.dumps(s) for s, k in zip(seqs, nhdr) if k >= 1}),
        "rule": "seeded calls: caller context with 0..5 user request headers (some sequences also write reserved names), correlation id, "
                "timeouts incl. sub-millisecond, optional pre-existing response headers; real WriteRequestHeader -> bytes -> real "
                "ReadRequestHeader; handler adds 0..5 response headers (25% reserved names), optional onward call with the received "
                "context; real WriteResponseHeader -> bytes -> real ReadResponseHeader into the caller's context; every context's maps "
                "are compared with the model after every step; non-trivial = at least one header added; distinct by sequence",
        "traces_validated_against_impl": sum(1 for v in verdicts if v >= 0),
        "trace_steps_validated": sum(v for v in verdicts if v >= 0),
        "judge_mismatches": mism,
        "oracle_failures": bad,
        "headers_per_call_histogram": {str(k): nhdr.count(k) for k in sorted(set(nhdr))},
        "samples": [{"ops": s} for s in seqs[:2]],
    }
