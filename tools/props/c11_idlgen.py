"""Seeded generator of Frugal IDL programs for C11 (valid multi-file programs with a feature
list, semantically invalid programs, mutated and arbitrary texts)."""

BASE = ["bool", "byte", "i8", "i16", "i32", "i64", "double", "string", "binary"]
KEYABLE = ["bool", "byte", "i16", "i32", "i64", "string"]

# words that are safe in every target language and are not IDL keywords
WORDS = ["alpha", "bravo", "cargo", "delta", "ember", "fjord", "gamma", "harbor", "index_", "jolly", "kappa",
         "lumen", "metro", "nadir", "omega", "pixel", "quark", "rotor", "sigma", "tango", "umbra", "vapor",
         "widget", "xenon", "yonder", "zephyr", "amount", "bucket", "cursor", "digest", "entry", "flavor",
         "grade", "height", "item", "journal", "kind", "level", "marker", "node", "owner", "payload", "quota",
         "rank", "shard", "token", "unit", "vendor_", "weight", "zone"]
WORDS = [w.rstrip("_") for w in WORDS]
INITIALISMS = ["id", "url", "http", "api", "uuid", "json", "ip"]

SHAPES = ["lower", "camel", "upper_camel", "snake", "initialism", "leading_us", "trailing_us", "double_us",
          "new_prefix", "args_suffix", "result_suffix", "allcaps", "digit"]
PLAIN_SHAPES = ["lower", "camel", "upper_camel", "snake", "initialism", "digit", "allcaps"]


def norm(name):
    return name.replace("_", "").lower()


class Names:
    """unique identifiers (unique also after case/underscore normalisation, which is what the
    generators of the targets reduce names to)"""

    def __init__(self, rng, exotic, probes=()):
        self.rng = rng
        self.exotic = exotic
        self.probes = set(probes)
        self.used = set()
        self.features = set()

    def fresh(self, kind="any"):
        rng = self.rng
        for _ in range(200):
            shapes = SHAPES if (self.exotic and rng.random() < 0.35) else PLAIN_SHAPES
            shape = rng.choice(shapes)
            # shapes the Go generator is known to mishandle are used only when a probe asks for them
            if kind in ("type", "service") and shape == "allcaps":
                if "allcaps_type" not in self.probes:
                    continue
                self.features.add("probe:allcaps_type")
            if kind in ("type", "service") and shape == "new_prefix":
                if "new_prefix_type" not in self.probes:
                    continue
                self.features.add("probe:new_prefix_type")
            if kind == "service" and shape not in ("upper_camel", "allcaps", "new_prefix"):
                if "service_name_shape" not in self.probes:
                    shape = "upper_camel"
                else:
                    self.features.add("probe:service_name_shape")
            if kind == "throws" and shape == "allcaps":
                if "allcaps_throws" not in self.probes:
                    continue
                self.features.add("probe:allcaps_throws")
            a, b = rng.choice(WORDS), rng.choice(WORDS)
            if shape == "lower":
                n = a
            elif shape == "camel":
                n = a + b.capitalize()
            elif shape == "upper_camel":
                n = a.capitalize() + b.capitalize()
            elif shape == "snake":
                n = a + "_" + b
            elif shape == "initialism":
                n = rng.choice([a + "_" + rng.choice(INITIALISMS), rng.choice(INITIALISMS) + "_" + a,
                                a + rng.choice(INITIALISMS).capitalize()])
            elif shape == "leading_us":
                n = "_" + a
            elif shape == "trailing_us":
                n = a + "_"
            elif shape == "double_us":
                n = a + "__" + b
            elif shape == "new_prefix":
                n = "New" + a.capitalize()
            elif shape == "args_suffix":
                n = a.capitalize() + "Args"
            elif shape == "result_suffix":
                n = a.capitalize() + "Result"
            elif shape == "allcaps":
                n = (a + "_" + b).upper()
            else:
                n = a + str(rng.randrange(0, 100))
            if kind in ("type", "service") and (rng.random() < 0.7 or kind == "service") and n[0].isalpha() \
                    and "service_name_shape" not in self.probes:
                n = n[0].upper() + n[1:]
            k = norm(n)
            if k in self.used or not k:
                continue
            self.used.add(k)
            if shape in ("leading_us", "trailing_us", "double_us", "new_prefix", "args_suffix", "result_suffix"):
                self.features.add("ident:" + shape)
            return n
        raise RuntimeError("name space exhausted")


class File:
    def __init__(self, name):
        self.name = name
        self.includes = []      # File
        self.namespaces = []    # (scope, value)
        self.typedefs = []      # (name, type)
        self.enums = []         # (name, [(vname, value or None)])
        self.structs = []       # (kind, name, [field])
        self.consts = []        # (type, name, valuetext)
        self.services = []      # (name, extends or None, [method])
        self.scopes = []        # (name, prefix or None, [(opname, type)])
        self.order = []         # rendering order of declarations: (section, index)


# a type: ("base", n) | ("list", t) | ("set", t) | ("map", k, v) | ("ref", textual name, kind)
# kind: "enum" | "struct" | "union" | "exception" | ("typedef", underlying type kind string)

def render_type(t):
    if t[0] == "base":
        return t[1]
    if t[0] == "list":
        return "list<%s>" % render_type(t[1])
    if t[0] == "set":
        return "set<%s>" % render_type(t[1])
    if t[0] == "map":
        return "map<%s, %s>" % (render_type(t[1]), render_type(t[2]))
    return t[1]


def type_class(t):
    """what the type is once typedefs are followed: base name, list, set, map, enum, struct..."""
    if t[0] == "base":
        return t[1]
    if t[0] in ("list", "set", "map"):
        return t[0]
    k = t[2]
    if isinstance(k, tuple):
        return k[1]
    return k


def foreign(t, owner, visible_includes):
    """does the type (as written in file `owner`) mention, directly or through typedefs of `owner`,
    a name qualified by an include that is not in `visible_includes`?"""
    if t[0] == "base":
        return False
    if t[0] in ("list", "set"):
        return foreign(t[1], owner, visible_includes)
    if t[0] == "map":
        return foreign(t[1], owner, visible_includes) or foreign(t[2], owner, visible_includes)
    name = t[1]
    if "." in name:
        inc, rest = name.split(".", 1)
        if inc not in visible_includes:
            return True
        # resolvable by name; what it stands for may still lead further away
        sub = [i for i in owner.includes if i.name == inc]
        if sub:
            tds = dict(sub[0].typedefs)
            if rest in tds:
                return foreign(tds[rest], sub[0], visible_includes)
        return False
    tds = dict(owner.typedefs)
    if name in tds:
        return foreign(tds[name], owner, visible_includes)
    return False


class Gen:
    def __init__(self, rng, exotic=True, size=1.0, probes=()):
        self.probes = set(probes)
        self.transitive = "transitive" in self.probes
        self.rng = rng
        self.exotic = exotic
        self.size = size
        self.features = set()

    # -- what a file can refer to: its own declarations and those of its direct includes
    def visible(self, f, kinds, qualified_from=None):
        out = []
        for (n, t) in f.typedefs:
            c = type_class(t)
            if ("typedef" in kinds) or (c in kinds) or ("keyable" in kinds and (c in KEYABLE or c == "enum")):
                out.append(("ref", n, ("typedef", c)))
        if "enum" in kinds or "keyable" in kinds:
            out += [("ref", n, "enum") for (n, _) in f.enums]
        for (k, n, _) in f.structs:
            if k in kinds:
                out.append(("ref", n, k))
        return out

    def refs(self, f, kinds):
        out = self.visible(f, kinds)
        mine = {i.name for i in f.includes}
        for inc in f.includes:
            tds = dict(inc.typedefs)
            for r in self.visible(inc, kinds):
                if r[1] in tds and foreign(tds[r[1]], inc, mine):
                    # a typedef of the include which is made of names of the include's own includes
                    # that this file does not include itself (known finding: cannot be named here)
                    if self.transitive:
                        out.append(("ref", inc.name + "." + r[1], r[2], "transitive"))
                    continue
                out.append(("ref", inc.name + "." + r[1], r[2]))
        return out

    def keyable(self, f):
        rng = self.rng
        cands = self.refs(f, {"keyable"})
        if cands and rng.random() < 0.3:
            return self.note(rng.choice(cands))
        return ("base", rng.choice(KEYABLE))

    def note(self, t):
        if t[0] == "ref":
            if len(t) > 3:
                self.features.add("probe:transitive_typedef")
            if "." in t[1]:
                self.features.add("ref:include")
                if isinstance(t[2], tuple):
                    self.features.add("ref:include_typedef")
            if isinstance(t[2], tuple):
                self.features.add("typedef_of:" + ("base" if t[2][1] in BASE else t[2][1]))
        return t

    def any_type(self, f, depth=0, allow=("enum", "struct", "union", "typedef")):
        rng = self.rng
        r = rng.random()
        if r < 0.45 or depth > 2:
            cands = self.refs(f, set(allow))
            if cands and rng.random() < 0.55:
                return self.note(rng.choice(cands))
            return ("base", rng.choice(BASE))
        if r < 0.65:
            return ("list", self.any_type(f, depth + 1, allow))
        if r < 0.8:
            return ("set", self.keyable(f))
        return ("map", self.keyable(f), self.any_type(f, depth + 1, allow))

    def const_value(self, f, t, depth=0):
        """a literal of the type (None if this generator has none)"""
        rng = self.rng
        c = type_class(t)
        if c == "bool":
            return rng.choice(["true", "false"])
        if c in ("byte", "i8"):
            return str(rng.randrange(-128, 128))
        if c == "i16":
            return str(rng.randrange(-32768, 32768))
        if c == "i32":
            return str(rng.choice([0, 1, -1, 2147483647, -2147483648, rng.randrange(-10**6, 10**6)]))
        if c == "i64":
            return str(rng.choice([0, -1, 9007199254740993, -9223372036854775808, 9223372036854775807]))
        if c == "double":
            return rng.choice(["0.0", "1.5", "-2.25", "3.0e5", "1.0e-3", "7"])
        if c in ("string", "binary"):
            s = rng.choice(["", "plain", "two words", "q\\\"uote", "apo's", "back\\\\slash", "tab\\there", "%d %s", "$dollar ${x}"])
            if c == "binary":
                s = rng.choice(["", "plain", "bytes"])
            return '"%s"' % s
        if t[0] == "list" and depth < 2:
            vs = [self.const_value(f, t[1], depth + 1) for _ in range(rng.randrange(0, 3))]
            return None if any(v is None for v in vs) else "[" + ", ".join(vs) + "]"
        if t[0] == "set" and depth < 2:
            vs = {self.const_value(f, t[1], depth + 1) for _ in range(rng.randrange(0, 3))}
            return None if any(v is None for v in vs) else "[" + ", ".join(sorted(vs)) + "]"
        if t[0] == "map" and depth < 2:
            ks = sorted({self.const_value(f, t[1], depth + 1) for _ in range(rng.randrange(0, 3))} - {None})
            vs = [self.const_value(f, t[2], depth + 1) for _ in ks]
            return None if any(v is None for v in vs) else "{" + ", ".join("%s: %s" % kv for kv in zip(ks, vs)) + "}"
        if c == "enum" and t[0] == "ref" and not isinstance(t[2], tuple):
            # Enum.VALUE (inc.Enum.VALUE for an include)
            owner, ename = (f, t[1])
            if "." in t[1]:
                inc, ename = t[1].split(".", 1)
                owner = [i for i in f.includes if i.name == inc][0]
            vals = [vs for (n, vs) in owner.enums if n == ename][0]
            self.features.add("const:enum")
            return "%s.%s" % (t[1], rng.choice(vals)[0])
        return None

    def fields(self, f, names_outer, n, allow, optional_ok=True, defaults=True):
        rng = self.rng
        names = Names(rng, self.exotic)
        out = []
        ids = rng.sample(range(1, 40), n)
        if rng.random() < 0.7:
            ids.sort()
        for i in range(n):
            t = self.any_type(f, 0, allow)
            mod = rng.choice(["", "", "required ", "optional "]) if optional_ok else ""
            d = None
            if defaults and rng.random() < 0.25:
                d = self.const_value(f, t)
                if d is not None:
                    self.features.add("default:" + ("container" if t[0] in ("list", "set", "map") else "scalar"))
            out.append((ids[i], mod, t, names.fresh(), d))
        self.features |= names.features
        return out

    def file(self, name, includes):
        rng = self.rng
        sz = self.size
        f = File(name)
        f.includes = includes
        names = Names(rng, self.exotic, self.probes)
        if rng.random() < 0.5:
            for scope in rng.sample(["go", "java", "dart", "py", "*"], rng.randrange(1, 4)):
                v = rng.choice([name + "ns", "org." + name, "com.example." + name + "pkg"]) if scope != "go" else \
                    rng.choice([name + "ns", "verif." + name])
                if scope == "dart":
                    v = name + "_dart"
                f.namespaces.append((scope, v))
            self.features.add("namespace")
        # enums
        for _ in range(rng.randrange(0, int(2 * sz) + 2)):
            vn = Names(rng, False)
            vals, cur = [], 0
            for _ in range(rng.randrange(1, 5)):
                if rng.random() < 0.5:
                    cur = cur + rng.randrange(1, 5)
                    vals.append((vn.fresh().upper() if rng.random() < 0.7 else vn.fresh(), cur))
                else:
                    cur += 1
                    vals.append((vn.fresh().upper(), None))
            f.enums.append((names.fresh("type"), vals))
        # typedefs of base / containers of base / enums (declared before use or after: order is free)
        for _ in range(rng.randrange(0, int(3 * sz) + 2)):
            t = self.any_type(f, 1, ("enum", "typedef"))
            f.typedefs.append((names.fresh("type"), t))
        # structs, unions, exceptions; typedefs of them
        for _ in range(rng.randrange(1, int(3 * sz) + 2)):
            kind = rng.choice(["struct", "struct", "struct", "union", "exception"])
            nm = names.fresh("type")
            flds = self.fields(f, names, rng.randrange(0 if kind == "struct" else 1, 6),
                               ("enum", "struct", "union", "typedef"),
                               optional_ok=(kind != "union"), defaults=(kind != "union"))
            if kind == "union":
                flds = [(i, "", t, n, None) for (i, m, t, n, d) in flds]
            f.structs.append((kind, nm, flds))
            if "typedef_struct" in self.probes and rng.random() < 0.5:
                f.typedefs.append((names.fresh("type"), self.note(("ref", nm, kind))))
                self.features.add("probe:typedef_struct")
        if rng.random() < 0.4 and f.typedefs:
            # typedef of a typedef (chain), possibly through an include
            cands = self.refs(f, {"typedef"})
            if cands:
                f.typedefs.append((names.fresh("type"), self.note(rng.choice(cands))))
                self.features.add("typedef_chain")
        # constants
        for _ in range(rng.randrange(0, int(3 * sz) + 1)):
            t = self.any_type(f, 1, ("enum", "typedef"))
            v = self.const_value(f, t)
            if v is not None:
                f.consts.append((t, names.fresh(), v))
        scalar_consts = [c for c in f.consts if c[0][0] not in ("list", "set", "map") and type_class(c[0]) in BASE]
        if scalar_consts and rng.random() < 0.3:
            t, n, v = rng.choice(scalar_consts)
            f.consts.append((t, names.fresh(), n))
            self.features.add("const:ref")
        # a struct whose fields of a container type default to a constant of this file by NAME (the generators emit a
        # reference to the constant there, not a literal)
        named = [c for c in f.consts if c[0][0] in ("list", "set", "map")]
        if named and rng.random() < 0.5:
            t, n, v = rng.choice(named)
            f.structs.append(("struct", names.fresh("type"),
                              [(1, "", t, names.fresh(), n), (2, "optional ", t, names.fresh(), n), (4, "", ("base", "i32"), names.fresh(), None)]))
            self.features.add("default:named_container_const")
        # services
        excs = self.refs(f, {"exception"})
        for _ in range(rng.randrange(0, int(2 * sz) + 1)):
            mn = Names(rng, self.exotic)
            en_features = set()
            methods = []
            for _ in range(rng.randrange(0, 4)):
                oneway = rng.random() < 0.15
                ret = None if (oneway or rng.random() < 0.3) else self.any_type(f, 0, ("enum", "struct", "union", "typedef"))
                args = self.fields(f, names, rng.randrange(0, 4), ("enum", "struct", "union", "typedef"),
                                   optional_ok=False, defaults=False)
                throws = []
                if excs and not oneway and rng.random() < 0.4:
                    en = Names(rng, False, self.probes)
                    throws = [(i + 1, "", e, en.fresh("throws"), None) for i, e in
                              enumerate(rng.sample(excs, min(len(excs), rng.randrange(1, 3))))]
                    for e in throws:
                        self.note(e[2])
                    en_features |= en.features
                methods.append((mn.fresh(), oneway, ret, args, throws))
            self.features |= mn.features
            ext = None
            cands = [s[0] for s in f.services] + [i.name + "." + s[0] for i in f.includes for s in i.services]
            if cands and rng.random() < 0.3:
                ext = rng.choice(cands)
                self.features.add("service:extends" + ("_include" if "." in ext else ""))
            f.services.append((names.fresh("service"), ext, methods))
            self.features |= en_features
        # scopes
        structs = self.refs(f, {"struct"})
        for _ in range(rng.randrange(0, int(1 * sz) + 2)):
            if not structs:
                break
            on = Names(rng, self.exotic)
            ops = [(on.fresh(), self.note(rng.choice(structs))) for _ in range(rng.randrange(1, 4))]
            self.features |= on.features
            prefix = None
            if rng.random() < 0.6:
                toks = []
                for w in rng.sample(WORDS, rng.randrange(1, 4)):   # variables of a prefix are distinct
                    toks.append("{%s}" % w if rng.random() < 0.4 else w)
                prefix = ".".join(toks)
            f.scopes.append((names.fresh("type"), prefix, ops))
        self.features |= names.features
        return f

    def program(self):
        """returns (files: list of File, main first)"""
        rng = self.rng
        shape = rng.choice(["single", "single", "one_inc", "two_inc", "nested", "diamond"])
        self.features.add("files:" + shape)
        if shape == "single":
            return [self.file("root", [])]
        if shape == "one_inc":
            a = self.file("inca", [])
            return [self.file("root", [a]), a]
        if shape == "two_inc":
            a, b = self.file("inca", []), self.file("incb", [])
            return [self.file("root", [a, b]), a, b]
        if shape == "nested":
            b = self.file("incb", [])
            a = self.file("inca", [b])
            return [self.file("root", [a]), a, b]
        b = self.file("incb", [])
        a = self.file("inca", [b])
        return [self.file("root", [a, b]), a, b]


def render(f, rng, ext=".frugal"):
    """text of one file; layout choices (separators, comments, order of sections) are random"""
    sep = lambda: rng.choice(["", ",", ";"])
    out = []
    if rng.random() < 0.3:
        out.append(rng.choice(["// generated for C11", "# generated for C11", "/* generated\n   for C11 */"]))
    for scope, v in f.namespaces:
        out.append("namespace %s %s" % (scope, v))
    for inc in f.includes:
        out.append('include "%s%s"' % (inc.name, ext))
    blocks = []
    for (n, t) in f.typedefs:
        blocks.append(("typedef", "typedef %s %s%s" % (render_type(t), n, rng.choice(["", ";"]))))
    for (n, vals) in f.enums:
        body = "".join("    %s%s%s\n" % (vn, "" if v is None else " = %d" % v, sep()) for vn, v in vals)
        blocks.append(("enum", "enum %s {\n%s}" % (n, body)))
    for (k, n, flds) in f.structs:
        body = ""
        for (i, mod, t, fn, d) in flds:
            if rng.random() < 0.15:
                body += "    /**@ field %s */\n" % fn
            body += "    %d: %s%s %s%s%s\n" % (i, mod, render_type(t), fn, "" if d is None else " = " + d, sep())
        doc = "/**@ %s %s. */\n" % (k, n) if rng.random() < 0.3 else ""
        blocks.append((k, "%s%s %s {\n%s}" % (doc, k, n, body)))
    for (t, n, v) in f.consts:
        blocks.append(("const", "const %s %s = %s%s" % (render_type(t), n, v, rng.choice(["", ";"]))))
    for (n, ext_, methods) in f.services:
        body = ""
        for (mn, oneway, ret, args, throws) in methods:
            a = ", ".join("%d: %s %s" % (i, render_type(t), an) for (i, _, t, an, _) in args)
            th = ""
            if throws:
                th = " throws (" + ", ".join("%d: %s %s" % (i, render_type(t), en) for (i, _, t, en, _) in throws) + ")"
            dep = ' (deprecated="use something else")' if rng.random() < 0.1 else ""
            body += "    %s%s %s(%s)%s%s%s\n" % ("oneway " if oneway else "", "void" if ret is None else render_type(ret),
                                                 mn, a, th, dep, sep())
        blocks.append(("service", "service %s %s{\n%s}" % (n, "extends %s " % ext_ if ext_ else "", body)))
    for (n, prefix, ops) in f.scopes:
        body = "".join("    %s: %s%s\n" % (on, render_type(t), sep()) for on, t in ops)
        blocks.append(("scope", "scope %s %s{\n%s}" % (n, "prefix %s " % prefix if prefix else "", body)))
    # declaration order is free in the IDL (forward references are legal)
    if rng.random() < 0.5:
        rng.shuffle(blocks)
    out += [b for _, b in blocks]
    return "\n\n".join(out) + "\n"


# deterministic snippets for generator defects that are known and not repaired (each is a valid
# program fragment); name -> (text appended to the root, extra files)
PROBE_SNIPPETS = {
    "typedef_struct": ("struct ProbeEmber { 1: i32 a }\ntypedef ProbeEmber ProbeWidget\n"
                       "struct ProbeHolder { 1: ProbeWidget w, 2: list<ProbeWidget> ws }\n", {}),
    "allcaps_type": ("struct PROBE_CAPS { 1: i32 a }\nstruct ProbeCapsUser { 1: PROBE_CAPS c }\n", {}),
    "new_prefix_type": ('include "probeinc.frugal"\nstruct ProbeNewUser { 1: probeinc.NewProbe n }\n',
                        {"probeinc.frugal": "struct NewProbe { 1: i32 a }\n"}),
    "service_name_shape": ("service probe_base { void ping() }\nservice ProbeKid extends probe_base { void pong() }\n", {}),
    "allcaps_throws": ("exception ProbeErr { 1: string m }\n"
                       "service ProbeThrower { void f() throws (1: ProbeErr PROBE_ERR) }\n", {}),
    "transitive": ('include "probemid.frugal"\nstruct ProbeFarUser { 1: probemid.MidT t, 2: probemid.MidL l }\n',
                   {"probemid.frugal": 'include "probefar.frugal"\ntypedef probefar.FarS MidT\n'
                                       "typedef list<probefar.FarU> MidL\n",
                    "probefar.frugal": "struct FarS { 1: i32 a }\nunion FarU { 1: i32 a }\n"}),
    # repaired generator defects (findings triage): broader programs around the former known findings
    # C11-K5/K7/K8, C02-snake-extends, C03-arg-name-collision, C02-service-import; they must compile
    "dfx_allcaps_everywhere": (
        'include "dfxcapsinc.frugal"\nstruct DFX_CAPS { 1: i32 a }\nenum DFX_ENUM { X_Y = 1, Z = 2 }\n'
        'union DFX_UNION { 1: i32 a, 2: DFX_CAPS c }\nexception DFX_EXC { 1: string m }\ntypedef DFX_CAPS DfxCapsAlias\n'
        'struct DfxCapsUser { 1: DFX_CAPS c, 2: list<DFX_CAPS> l, 3: map<DFX_ENUM, DFX_UNION> m, 4: dfxcapsinc.INC_CAPS ic, '
        '5: dfxcapsinc.INC_ENUM ie = dfxcapsinc.INC_ENUM.A_B, 6: DFX_ENUM e = DFX_ENUM.Z, 7: DfxCapsAlias ca, 8: optional DFX_ENUM oe }\n'
        'const DFX_CAPS DFX_CC = {"a": 1}\n'
        'service DfxCapsSvc { DFX_CAPS f(1: DFX_UNION u, 2: dfxcapsinc.INC_CAPS c) throws (1: DFX_EXC e), DFX_ENUM g(1: DFX_ENUM e) }\n'
        'scope DfxCapsEv { made: DFX_CAPS }\n',
        {"dfxcapsinc.frugal": "struct INC_CAPS { 1: i32 a }\nenum INC_ENUM { A_B = 1 }\n"}),
    "dfx_extends_shapes": (
        'include "dfxbaseinc.frugal"\nservice dfx_kid_svc extends dfxbaseinc.dfx_base_svc { void pong() }\n'
        'service dfxGrandKid extends dfx_kid_svc { void pang() }\nservice DfxLast extends dfxGrandKid { void pung() }\n',
        {"dfxbaseinc.frugal": "service dfx_base_svc { void ping() }\n"}),
    "dfx_throws_names": (
        'exception DfxErrA { 1: string m }\nexception DfxErrB { 1: string m }\nexception DfxErrC { 1: string m }\n'
        'service DfxThrower { void f() throws (1: DfxErrA DFX_ERR, 2: DfxErrB new_err, 3: DfxErrC bad_args), '
        'i32 g() throws (1: DfxErrB e_result) }\n', {}),
    "dfx_arg_names": (
        'exception DfxArgErr { 1: string why }\nservice DfxArgs {\n' + ",\n".join(
            "  string m%d(1: string %s, 2: i32 plain) throws (1: DfxArgErr e)" % (i, n) for i, n in enumerate(
                ["err", "result", "args", "ret", "r", "f", "fctx", "fmt", "type", "func", "range", "len", "frugal", "thrift",
                 "error", "Err", "go", "map"])) + ',\n  oneway void ow(1: i32 err),\n  void vv(1: i32 result, 2: i32 ret)\n}\n', {}),
    "dfx_typedef_import": (
        'include "dfxtdinc.frugal"\ntypedef dfxtdinc.P DfxPT\ntypedef DfxPT DfxPT2\ntypedef map<string, DfxPT2> DfxPM\n'
        'typedef dfxtdinc.X DfxXT\ntypedef dfxtdinc.En DfxET\ntypedef dfxtdinc.IP DfxIPT\n'
        'service DfxTdSvc {\n DfxPM m(1: DfxPT2 a, 2: DfxET e, 3: DfxIPT i) throws (1: DfxXT x),\n oneway void o(1: DfxPM pm)\n}\n'
        'service DfxTdOther { void nothing(1: i32 a) }\nscope DfxTdEv { made: DfxPM }\nscope DfxTdEv2 { other: i32 }\n',
        {"dfxtdinc.frugal": "struct P { 1: i32 x }\nexception X { 1: string m }\nenum En { A = 1 }\ntypedef P IP\n"}),
    # the witness of theorem c11_classification_total_refuted: two different files included under
    # the same name
    "far_same_name": ('include "farinca.frugal"\ninclude "farincb.frugal"\nstruct ProbeFarR { 1: farinca.T f }\n',
                      {"farinca.frugal": 'include "farsub/farincb.frugal"\ntypedef farincb.X T\n',
                       "farsub/farincb.frugal": "struct X { 1: i32 a }\n",
                       "farincb.frugal": "typedef i32 X\n"}),
}


def valid_program(rng, exotic=True, size=1.0, probes=()):
    g = Gen(rng, exotic, size, ())
    files = g.program()
    texts = {f.name + ".frugal": render(f, rng) for f in files}
    for pr in probes:
        snippet, extra = PROBE_SNIPPETS[pr]
        texts["root.frugal"] += "\n" + snippet
        texts.update(extra)
        g.features.add("probe:" + pr)
    return {"files": texts, "main": "root.frugal", "features": sorted(g.features),
            "nfiles": len(files), "ndecl": sum(len(f.typedefs) + len(f.enums) + len(f.structs) + len(f.consts) +
                                               len(f.services) + len(f.scopes) for f in files)}


# ------------------------------------------------------------------------------------------
# programs for the typedef-resolution correspondence: many typedefs, chains, cycles, bad names

def typedef_program(rng, want_invalid):
    """small multi-file programs dense in typedefs; `want_invalid`: inject a cycle / bad reference"""
    kinds = []

    def mkfile(name, incs):
        n = rng.randrange(2, 9)
        tnames = ["T%s%d" % (name[-1].upper(), i) for i in range(n)]
        structs = ["S%s%d" % (name[-1].upper(), i) for i in range(rng.randrange(1, 3))]
        unions = ["U%s0" % name[-1].upper()] if rng.random() < 0.5 else []
        enums = ["E%s0" % name[-1].upper()] if rng.random() < 0.7 else []
        excs = ["X%s0" % name[-1].upper()] if rng.random() < 0.3 else []
        lines = ['include "%s.frugal"' % i["name"] for i in incs]

        def atom(i, local_ok=True):
            c = []
            c += [rng.choice(BASE)] * 2
            c += structs + unions + enums + excs
            if local_ok:
                # acyclic by construction: only earlier typedefs (declaration order is shuffled later)
                c += tnames[:i] * 2
            for inc in incs:
                c += [inc["name"] + "." + x for x in inc["exports"]] * 2
            return rng.choice(c)

        def ty(i, d=0):
            r = rng.random()
            if r < 0.6 or d > 1:
                return atom(i)
            if r < 0.75:
                return "list<%s>" % ty(i, d + 1)
            if r < 0.85:
                return "set<%s>" % ty(i, d + 1)
            return "map<%s, %s>" % (ty(i, d + 1), ty(i, d + 1))
        decls = []
        for i, t in enumerate(tnames):
            decls.append("typedef %s %s" % (ty(i), t))
        for s in structs:
            decls.append("struct %s { 1: %s a, 2: %s b }" % (s, ty(n), ty(n)))
        for s in unions:
            decls.append("union %s { 1: %s a }" % (s, ty(n)))
        for s in excs:
            decls.append("exception %s { 1: %s a }" % (s, ty(n)))
        for s in enums:
            decls.append("enum %s { A, B }" % s)
        if rng.random() < 0.4:
            decls.append("service Svc%s { %s f(1: %s a) }" % (name[-1].upper(), ty(n), ty(n)))
        if rng.random() < 0.3:
            decls.append("const %s c%s = 0" % (rng.choice(["i32", "i64"]), name[-1]))
        return {"name": name, "decls": decls, "lines": lines, "tnames": tnames,
                "exports": tnames + structs + unions + enums + excs}

    shape = rng.choice(["single", "one", "nested", "diamond"])
    if shape == "single":
        files = [mkfile("root", [])]
    elif shape == "one":
        a = mkfile("inca", [])
        files = [mkfile("root", [a]), a]
    elif shape == "nested":
        b = mkfile("incb", [])
        a = mkfile("inca", [b])
        files = [mkfile("root", [a]), a, b]
    else:
        b = mkfile("incb", [])
        a = mkfile("inca", [b])
        files = [mkfile("root", [a, b]), a, b]
    kinds.append("files:" + shape)
    if want_invalid:
        victim = rng.choice(files)
        how = rng.choice(["self", "two_cycle", "long_cycle", "container_cycle", "unknown", "unknown_include",
                          "bare_container", "shadow_base", "dup_redefine", "transitive"])
        t = victim["tnames"]
        d = victim["decls"]
        if how == "self":
            d.append("typedef Loop%s Loop%s" % (victim["name"][-1], victim["name"][-1]))
        elif how == "two_cycle":
            d.append("typedef CycB CycA")
            d.append("typedef CycA CycB")
        elif how == "long_cycle":
            k = rng.randrange(3, 7)
            for i in range(k):
                d.append("typedef Cyc%d Cyc%d" % ((i + 1) % k, i))
        elif how == "container_cycle":
            d.append("typedef %s Knot" % rng.choice(["list<Knot>", "map<i32, Knot>", "set<list<Knot>>", "map<Knot, string>"]))
        elif how == "unknown":
            d.append("typedef Nowhere Lost")
        elif how == "unknown_include":
            d.append("typedef nowhere.Thing Lost")
        elif how == "bare_container":
            d.append("typedef %s Bare" % rng.choice(["list", "set", "map"]))
        elif how == "shadow_base":
            d.append(rng.choice(["typedef i32 i32", "typedef list<i32> list", "typedef string binary\ntypedef binary string"]))
        elif how == "dup_redefine":
            # a name defined twice: the index keeps the last definition
            d.append("typedef i32 Twice")
            d.append("typedef Twice Twice")
        elif how == "transitive":
            # a name of an include's include that this file does not include itself
            d.append("typedef incb.TB0 Far")
        kinds.append("invalid:" + how)
    texts = {}
    for f in files:
        d = list(f["decls"])
        rng.shuffle(d)
        texts[f["name"] + ".frugal"] = "\n".join(f["lines"] + d) + "\n"
    return {"files": texts, "main": "root.frugal", "features": kinds}


# ------------------------------------------------------------------------------------------
# texts the compiler must reject (or accept) without crashing

TOKENS = ["struct", "union", "exception", "enum", "service", "scope", "typedef", "const", "include", "namespace",
          "extends", "throws", "oneway", "void", "required", "optional", "prefix", "list<", "map<", "set<", ">",
          "{", "}", "(", ")", "[", "]", ":", ",", ";", "=", "\"", "'", "/*", "*/", "/**@", "//", "#", ".", "_",
          "i32", "string", "binary", "1", "-1", "0x10", "1e9", "true", "\n", " ", "\t", "\r", "\x00", "\xff", "é"]


def mutate(rng, text):
    b = bytearray(text.encode("utf8", "surrogateescape"))
    how = rng.choice(["flip", "delete", "insert_tok", "truncate", "dup", "swap", "strip_brace", "splice"])
    for _ in range(rng.choice([1, 1, 2, 5])):
        if not b:
            break
        if how == "flip":
            b[rng.randrange(len(b))] = rng.randrange(256)
        elif how == "delete":
            i = rng.randrange(len(b))
            del b[i:i + rng.randrange(1, 12)]
        elif how == "insert_tok":
            i = rng.randrange(len(b) + 1)
            b[i:i] = rng.choice(TOKENS).encode("latin1", "replace")
        elif how == "truncate":
            del b[rng.randrange(len(b)):]
        elif how == "dup":
            i = rng.randrange(len(b))
            j = min(len(b), i + rng.randrange(1, 60))
            b[i:i] = b[i:j]
        elif how == "swap":
            i, j = sorted((rng.randrange(len(b)), rng.randrange(len(b))))
            b[i], b[j] = b[j], b[i]
        elif how == "strip_brace":
            idx = [k for k, c in enumerate(b) if c in b"{}()<>"]
            if idx:
                del b[rng.choice(idx)]
        else:
            i = rng.randrange(len(b))
            b[i:i] = bytes(rng.randrange(256) for _ in range(rng.randrange(1, 20)))
    return bytes(b), how


def arbitrary(rng):
    r = rng.random()
    if r < 0.3:
        return bytes(rng.randrange(256) for _ in range(rng.randrange(0, 400)))
    if r < 0.8:
        return "".join(rng.choice(TOKENS) + rng.choice(["", " ", "x", "Foo "]) for _ in range(rng.randrange(1, 80))) \
            .encode("latin1", "replace")
    # deep nesting
    n = rng.choice([50, 500, 5000])
    kind = rng.choice(["list", "const_list", "const_map", "comment", "paren"])
    if kind == "list":
        # the generators are cubic in the nesting depth of a type (depth 800: 12-22 s for dart/java,
        # depth 2000: minutes); the depth is kept where a run stays under the wall-time limit
        n = min(n, 300)
        return ("struct S { 1: " + "list<" * n + "i32" + ">" * n + " a }").encode()
    if kind == "const_list":
        return ("const list<i32> c = " + "[" * n + "]" * n).encode()
    if kind == "const_map":
        return ("const map<i32,i32> c = " + "{1:" * n + "1" + "}" * n).encode()
    if kind == "comment":
        return ("/*" * n + "struct S {}").encode()
    return ("struct S {} " + "(" * n).encode()


SEMANTIC_INVALID = [
    ("unknown_type", "struct S { 1: Nope a }\n"),
    ("unknown_include_type", "struct S { 1: nope.T a }\n"),
    ("cyclic_typedef", "typedef B A\ntypedef A B\nstruct S { 1: A a }\n"),
    ("self_typedef", "typedef A A\n"),
    ("container_cycle", "typedef list<A> A\nstruct S { 1: A a }\n"),
    ("typedef_shadows_base", "typedef i32 i32\nstruct S { 1: i32 a }\n"),
    ("typedef_shadows_container", "typedef list<i32> list\nstruct S { 1: list<i32> a }\n"),
    ("bare_list", "struct S { 1: list a }\n"),
    ("bare_map_typedef", "typedef map M\n"),
    ("bare_set_const", "const set s = 1\n"),
    ("bare_service", "service X { list f(1: map a) throws (1: set e) }\n"),
    ("bare_scope", "scope Sc { op: list }\n"),
    ("dup_field_id", "struct S { 1: i32 a, 1: i32 b }\n"),
    ("dup_arg_id", "service X { void f(1: i32 a, 1: i32 b) }\n"),
    ("dup_service", "service X {}\nservice X {}\n"),
    ("case_conflict_service", "service foo {}\nservice Foo {}\n"),
    ("dup_method", "service X { void f() void f() }\n"),
    ("dup_scope", "struct E {}\nscope A { x: E }\nscope A { y: E }\n"),
    ("dup_op", "struct E {}\nscope A { x: E, x: E }\n"),
    ("oneway_returns", "service X { oneway i32 f() }\n"),
    ("oneway_throws", "exception E {}\nservice X { oneway void f() throws (1: E e) }\n"),
    # witnesses of c11_validated_extends_refuted / _throws_refuted / _dup_names_refuted (repaired: rejected)
    ("extends_missing", "service A extends Nope { void f() }\n"),
    ("extends_cycle", "service A extends B {}\nservice B extends A {}\n"),
    ("extends_self", "service A extends A { void f() }\n"),
    ("throws_struct", "struct S { 1: i32 a }\nservice A { void f() throws (1: S s) }\n"),
    ("dup_field_name", "struct S { 1: i32 a, 2: i32 a }\n"),
    ("dup_throws_id", "exception E {}\nservice X { void f() throws (1: E a, 1: E b) }\n"),
    ("missing_include", 'include "nothere.frugal"\n'),
    ("bad_include_ext", 'include "x.txt"\n'),
    ("self_include", 'include "root.frugal"\n'),
    ("dup_include", 'include "other.frugal"\ninclude "other.frugal"\n'),
    ("const_unknown_ref", "const i32 a = b\n"),
    ("const_unknown_include_ref", "const i32 a = inc.b\n"),
    ("const_bad_name", "const i32 a = x.y.z.w\n"),
    ("const_bad_type", "const Nope a = 1\n"),
    # witnesses of c11_validated_constants_fit_pinned_refuted (repaired: rejected), and their relatives
    ("const_int_for_list", "const list<i32> x = 5\n"),
    ("const_string_for_int", 'const i32 y = "hello"\n'),
    ("const_nested_unknown_ref", "const list<i32> z = [nope]\n"),
    ("const_int_for_struct", "struct S { 1: i32 a }\nconst S s = 5\n"),
    ("const_struct_int_key", "struct S { 1: i32 a }\nconst S s = {1: 2}\n"),
    ("const_struct_bad_field", 'struct S { 1: i32 a }\nconst S s = {"a": "x"}\n'),
    ("const_enum_undeclared_number", "enum E { A = 1 }\nconst E e = 7\n"),
    ("const_out_of_range", "const i8 b = 300\n"),
    ("const_int_for_bool", "const bool b = 1\n"),
    ("const_ref_wrong_kind", "const i32 a = 1\nconst string s = a\n"),
    ("const_bad_map_value", 'const map<string, list<i32>> m = {"a": [1], "b": 2}\n'),
    ("default_string_for_int", 'struct S { 1: i32 a = "x" }\n'),
    ("default_int_for_list", "struct S { 1: list<i32> a = 5 }\n"),
    ("default_unknown_ref", "struct S { 1: i32 a = nope }\n"),
    ("default_arg_list_for_int", "service X { void f(1: i32 a = [1]) }\n"),
    ("wildcard_vendor_ns", 'namespace * foo (vendor="x")\n'),
    ("bad_return_type", "service X { Nope f() }\n"),
    ("bad_arg_type", "service X { void f(1: Nope a) }\n"),
    ("bad_exception_type", "service X { void f() throws (1: Nope e) }\n"),
    ("bad_op_type", "scope Sc { op: Nope }\n"),
    ("dup_prefix_variable", "struct E {}\nscope Sc prefix a.{zone}.{zone} { op: E }\n"),
    ("unterminated_struct", "struct S { 1: i32 a\n"),
    ("unterminated_service", "service X { void f()\n"),
    ("unterminated_scope", "struct E {}\nscope Sc { op: E\n"),
    ("unterminated_string", 'const string s = "abc\n'),
    ("unterminated_comment", "/* abc\nstruct S {}\n"),
    ("garbage", "this is not idl\n"),
    ("empty_braces_only", "{}\n"),
]
