"""Seeded IDL program generator for the generated-code laboratory (DESIGN.md 2.4).

A *program* is a multi-file Frugal IDL program, returned both as a Python data structure (the
model of the program; JSON-serialisable) and, through `render(program)`, as IDL text.

    program = {
      "id": str, "root": fname, "order": [fname, ...]   # included files before including ones
      "files": {fname: {
          "name": fname, "includes": [fname, ...],
          "typedefs": [{"name", "type": T}],
          "enums":    [{"name", "values": [[vname, int], ...]}],
          "consts":   [{"name", "type": T, "value": V}],
          "structs":  [{"name", "kind": "struct"|"union"|"exception", "fields": [F, ...]}],
          "services": [{"name", "extends": [file, name] | None,
                        "methods": [{"name", "oneway": bool, "ret": T | None, "args": [F], "throws": [F]}]}],
          "scopes":   [{"name", "prefix": "a.{user}", "vars": ["user"], "ops": [{"name", "type": T}]}],
      }}}
    F = {"id": int, "name": str, "mod": "required"|"optional"|"default", "type": T,
         "default": None | {"value": V, "const": [file, name] | None}}
    T = ["bool"] | ["byte"] | ["i8"] | ["i16"] | ["i32"] | ["i64"] | ["double"] | ["string"] | ["binary"]
      | ["list", T] | ["set", T] | ["map", K, V] | ["ref", file, name]      (file = the DECLARING file)
    V (model values): bool | int | float | str (string) | bytes (binary) | int (enum)
      | list (list, set) | list of [k, v] (map) | {field id: V or None} (struct-like; see gen_value)

Entry points
    gen_program(rng, pid, size="small"|"medium"|"large", features=None) -> program
    render(program) -> {"<fname>.frugal": text}
    lookup(program, file, name) -> ("typedef", d) | ("enum", d) | ("struct", d)
    resolve(program, T) -> T with typedef chains followed at the head (true IDL semantics)
    all_structs(program) -> [(file, structdef)]        (declared structs, unions, exceptions)
    method_structs(program, file, service) -> [structdef]   (args / result structs as base.go builds them)
    go_kind(program, F) -> "P" (pointer) | "N" (nillable slice/map) | "V" (plain value)   (isPointerField rule)
    go_type_name(file, name) / go_struct_name / go_method_struct_name: names the Go generator emits
    gen_value(rng, program, T, depth) -> V   random *Go-level* value (what the emitted types can hold)
    zero_value / new_value(program, structdef): the value `New<T>()` builds

Restrictions that keep the emitted Go compilable (Go map keys must be comparable): set elements and
map keys are never binary or containers.  Typedefs in an included file whose target names another declaration
of that file are used from the including file only when asked for through `features`
("typedef_chain_include"), snake_case service names only with "snake_service": the Go generator mishandles
both (known findings of C02).
"""
import math
import random
import struct as _struct

BASE = ["bool", "byte", "i8", "i16", "i32", "i64", "double", "string", "binary"]
INT_RANGE = {"byte": 8, "i8": 8, "i16": 16, "i32": 32, "i64": 64}
INITIALISMS = {"API", "ASCII", "CPU", "CSS", "DNS", "EOF", "GUID", "HTML", "HTTP", "HTTPS", "ID", "IP", "JSON",
               "LHS", "QPS", "RAM", "RHS", "RPC", "SLA", "SMTP", "SSH", "TLS", "TTL", "UI", "UID", "UUID",
               "URI", "URL", "UTF8", "VM", "XML"}
ENUM_NAME_THROUGH_TYPEDEF = True
DEFAULT_FEATURES = {"services": True, "scopes": True, "consts": True, "recursive": True,
                    "typedef_struct": True, "typedef_chain_include": False, "new_prefix": True, "snake_service": False,
                    "service_typedef_foreign": False,
                    # a typedef may reuse the bare name of a typedef of an included file (inc.X and X are different types)
                    "name_collision": True}


# ------------------------------------------------------------------------------------------------
# names as the Go generator emits them (port of snakeToCamel / title / titleServiceName)

def snake_to_camel(s):
    out = ""
    for w in s.split("_"):
        if w.upper() in INITIALISMS:
            out += w.upper()
        else:
            out += w[0].upper() + w[1:]
    return out


def title(name, service=""):
    if not name or name == name.upper():
        return name
    if service:
        name = "%s_%s" % (service, name)
    r = snake_to_camel(name)
    if not service and (r.startswith("New") or r.endswith("Args") or r.endswith("Result")):
        r += "_"
    return r


def go_struct_name(name):
    return title(name)


def go_method_struct_name(service, method, which):
    """which = 'args' | 'result'"""
    return title("%s_%s" % (method, which), service)


def go_pkg(fname):
    return fname


# ------------------------------------------------------------------------------------------------
# program queries

def lookup(program, file, name):
    f = program["files"][file]
    for d in f["typedefs"]:
        if d["name"] == name:
            return ("typedef", d)
    for d in f["enums"]:
        if d["name"] == name:
            return ("enum", d)
    for d in f["structs"]:
        if d["name"] == name:
            return ("struct", d)
    raise KeyError((file, name))


def resolve(program, t):
    """Follow typedef chains at the head of t (true semantics: each name resolved in its declaring file)."""
    n = 0
    while t[0] == "ref":
        k, d = lookup(program, t[1], t[2])
        if k != "typedef":
            return t
        t = d["type"]
        n += 1
        assert n < 1000
    return t


def head_kind(program, t):
    """'base:<name>' | 'enum' | 'struct' | 'list' | 'set' | 'map' of the resolved type."""
    r = resolve(program, t)
    if r[0] == "ref":
        return lookup(program, r[1], r[2])[0]
    if r[0] in ("list", "set", "map"):
        return r[0]
    return "base:" + r[0]


def all_structs(program):
    return [(fn, s) for fn in program["order"] for s in program["files"][fn]["structs"] if not s.get("synthetic")]


def find_service(program, file, name):
    for s in program["files"][file]["services"]:
        if s["name"] == name:
            return s
    raise KeyError((file, name))


def service_methods(program, file, service, inherited=True):
    """[(declaring file, declaring service name, method)] own first, then inherited (base first last)."""
    out = []
    svc = find_service(program, file, service)
    for m in svc["methods"]:
        out.append((file, service, m))
    if inherited and svc.get("extends"):
        out += service_methods(program, svc["extends"][0], svc["extends"][1], True)
    return out


def method_structs(program, file, service):
    """args/result structs exactly as compiler/generator/base.go GetServiceMethodTypes synthesises them:
    args: optional arguments become default; result: `success` (id 0) + exceptions, all optional."""
    out = []
    for m in find_service(program, file, service)["methods"]:
        args = []
        for a in m["args"]:
            a2 = dict(a)
            if a2["mod"] == "optional":
                a2["mod"] = "default"
            args.append(a2)
        out.append({"name": "%s_args" % m["name"], "kind": "struct", "fields": args,
                    "go_name": go_method_struct_name(service, m["name"], "args"), "method": m["name"], "role": "args"})
        if not m["oneway"]:
            fields = []
            if m["ret"] is not None:
                fields.append({"id": 0, "name": "success", "mod": "optional", "type": m["ret"], "default": None})
            for e in m["throws"]:
                e2 = dict(e)
                e2["mod"] = "optional"
                fields.append(e2)
            out.append({"name": "%s_result" % m["name"], "kind": "struct", "fields": fields,
                        "go_name": go_method_struct_name(service, m["name"], "result"), "method": m["name"],
                        "role": "result"})
    return out


def go_kind(program, field):
    """The Go generator's isPointerField rule plus nillability: 'P' pointer field, 'N' non-pointer slice/map
    (nil-able), 'V' plain value."""
    hk = head_kind(program, field["type"])
    if hk == "struct":
        return "P"
    has_def = field.get("default") is not None
    opt = field["mod"] == "optional"
    if hk == "base:binary":
        return "N"
    if hk in ("list", "set", "map"):
        return "P" if (opt and has_def) else "N"
    return "P" if (opt and not has_def) else "V"


# ------------------------------------------------------------------------------------------------
# rendering

def render_type(t, cur):
    if t[0] == "ref":
        return t[2] if t[1] == cur else "%s.%s" % (t[1], t[2])
    if t[0] == "list":
        return "list<%s>" % render_type(t[1], cur)
    if t[0] == "set":
        return "set<%s>" % render_type(t[1], cur)
    if t[0] == "map":
        return "map<%s, %s>" % (render_type(t[1], cur), render_type(t[2], cur))
    return t[0]


def _quote(s):
    return '"' + s.replace("\\", "\\\\").replace('"', '\\"') + '"'


def render_value(program, t, v, cur):
    r = resolve(program, t)
    if r[0] == "ref":
        k, d = lookup(program, r[1], r[2])
        if k == "enum":
            if t != r and not ENUM_NAME_THROUGH_TYPEDEF:
                # `E.V` is a Go constant of type E; the generator emits it unconverted where a typedef of E is
                # expected (does not compile) -- integers are used instead unless the probe asks for names
                return str(v)
            for vn, vv in d["values"]:
                if vv == v:
                    pre = d["name"] if r[1] == cur else "%s.%s" % (r[1], d["name"])
                    return "%s.%s" % (pre, vn)
            return str(v)
        # struct literal
        parts = []
        for f in d["fields"]:
            if v.get(f["id"]) is not None:
                parts.append("%s: %s" % (_quote(f["name"]), render_value(program, f["type"], v[f["id"]], cur)))
        return "{" + ", ".join(parts) + "}"
    if r[0] in ("list", "set"):
        return "[" + ", ".join(render_value(program, r[1], x, cur) for x in v) + "]"
    if r[0] == "map":
        return "{" + ", ".join("%s: %s" % (render_value(program, r[1], k, cur), render_value(program, r[2], x, cur))
                               for k, x in v) + "}"
    if r[0] == "bool":
        return "true" if v else "false"
    if r[0] == "double":
        return repr(float(v))
    if r[0] == "string":
        return _quote(v)
    if r[0] == "binary":
        return _quote(v.decode("ascii"))
    return str(v)


def render_field(program, f, cur, union=False):
    s = "%d: " % f["id"]
    if not union and f["mod"] != "default":
        s += f["mod"] + " "
    s += "%s %s" % (render_type(f["type"], cur), f["name"])
    if f.get("default") is not None:
        d = f["default"]
        if d.get("const"):
            cf, cn = d["const"]
            s += " = " + (cn if cf == cur else "%s.%s" % (cf, cn))
        else:
            s += " = " + render_value(program, f["type"], d["value"], cur)
    return s


def render(program):
    out = {}
    for fn in program["order"]:
        f = program["files"][fn]
        L = ["// generated by tools/lab_idl.py, program %s" % program["id"]]
        for inc in f["includes"]:
            L.append('include "%s.frugal"' % inc)
        L.append("")
        # structs first on purpose in some files: forward references are legal IDL
        blocks = []
        for d in f["typedefs"]:
            blocks.append(("typedef", "typedef %s %s" % (render_type(d["type"], fn), d["name"])))
        for d in f["enums"]:
            blocks.append(("enum", "enum %s {\n%s\n}" % (d["name"], ",\n".join("  %s = %d" % (a, b) for a, b in d["values"]))))
        for d in f["consts"]:
            blocks.append(("const", "const %s %s = %s" % (render_type(d["type"], fn), d["name"],
                                                          render_value(program, d["type"], d["value"], fn))))
        for d in f["structs"]:
            if d.get("synthetic"):
                continue
            sep = [",", ";", ""][len(d["name"]) % 3]
            body = "\n".join("  %s%s" % (render_field(program, x, fn, d["kind"] == "union"), sep) for x in d["fields"])
            blocks.append(("struct", "%s %s {\n%s\n}" % (d["kind"], d["name"], body)))
        if f.get("decl_order") == "structs_first":
            blocks.sort(key=lambda b: 0 if b[0] == "struct" else 1)
        L += [b[1] + "\n" for b in blocks]
        for d in f["services"]:
            ext = ""
            if d.get("extends"):
                ef, en = d["extends"]
                ext = " extends " + (en if ef == fn else "%s.%s" % (ef, en))
            ms = []
            for m in d["methods"]:
                ret = "void" if m["ret"] is None else render_type(m["ret"], fn)
                s = "  %s%s %s(%s)" % ("oneway " if m["oneway"] else "", ret, m["name"],
                                       ", ".join(render_field(program, a, fn) for a in m["args"]))
                if m["throws"]:
                    s += " throws (%s)" % ", ".join(render_field(program, a, fn) for a in m["throws"])
                ms.append(s)
            L.append("service %s%s {\n%s\n}\n" % (d["name"], ext, ",\n".join(ms)))
        for d in f["scopes"]:
            pre = (" prefix " + d["prefix"]) if d["prefix"] else ""
            L.append("scope %s%s {\n%s\n}\n" % (d["name"], pre, "\n".join("  %s: %s" % (o["name"], render_type(o["type"], fn))
                                                                         for o in d["ops"])))
        out[fn + ".frugal"] = "\n".join(L)
    return out


# ------------------------------------------------------------------------------------------------
# values

def f64_bits(x):
    return _struct.unpack(">Q", _struct.pack(">d", x))[0]


def bits_f64(b):
    return _struct.unpack(">d", _struct.pack(">Q", b))[0]


SPECIAL_DOUBLES = [0.0, -0.0, 1.0, -1.5, 1e300, -1e-300, 5e-324, float("inf"), float("-inf"), float("nan"),
                   3.141592653589793, 2.5, 1e10]
STR_POOL = ["", "a", "hello", "snow☃man", "été", "tab\there", "quote\"s'", "back\\slash", "nul\x00byte",
            "\U0001F4A9", "line\nbreak", "{json}", "a" * 40]


def rand_int(rng, bits):
    r = rng.random()
    lo, hi = -(1 << (bits - 1)), (1 << (bits - 1)) - 1
    if r < 0.25:
        return rng.choice([0, 1, -1, lo, hi, 2, 127, -128, 255, 256]) if bits > 8 else rng.choice([0, 1, -1, lo, hi])
    if r < 0.6:
        return rng.randrange(-100, 100) if bits > 8 else rng.randrange(lo, hi + 1)
    return rng.randrange(lo, hi + 1)


def rand_string(rng):
    r = rng.random()
    if r < 0.5:
        return rng.choice(STR_POOL)
    n = rng.randrange(0, 12) if r < 0.95 else rng.randrange(100, 400)
    return "".join(rng.choice("abcXYZ019 _-é☃") for _ in range(n))


def rand_bytes(rng):
    r = rng.random()
    if r < 0.2:
        return b""
    n = rng.randrange(1, 10) if r < 0.95 else rng.randrange(100, 300)
    return bytes(rng.getrandbits(8) for _ in range(n))


def key_of(v):
    """hashable identity of a model value (used for distinctness of set elements / map keys)."""
    if isinstance(v, float):
        return ("d", f64_bits(v))
    if isinstance(v, (list, tuple)):
        return tuple(key_of(x) for x in v)
    if isinstance(v, dict):
        return tuple(sorted((k, key_of(x)) for k, x in v.items()))
    return (type(v).__name__, v)


def gen_value(rng, program, t, depth=0, as_key=False, safe=False):
    """A random Go-level value of IDL type t.  Struct-likes: {field id: value or None}; None = nil / left unset
    (only for fields whose Go representation has a nil: go_kind P or N); go_kind V fields always carry a value."""
    r = resolve(program, t)
    if r[0] == "ref":
        k, d = lookup(program, r[1], r[2])
        if k == "enum":
            vals = [b for _, b in d["values"]]
            # a default or constant written in the IDL (safe) must be a declared number: validation rejects others
            if rng.random() < 0.85 or as_key or safe:
                return rng.choice(vals)
            return rand_int(rng, 32)
        return gen_struct_value(rng, program, d, depth)
    if r[0] in ("list", "set"):
        n = _rand_count(rng, depth)
        if r[0] == "set" and _empty_struct(program, r[1]):
            n = min(n, 1)     # pointers to zero-size Go structs are all equal: such a set holds one element
        out, seen = [], set()
        for _ in range(n):
            v = gen_value(rng, program, r[1], depth + 1, as_key=(r[0] == "set"), safe=safe)
            if r[0] == "set":
                kk = key_of(v)
                if kk in seen and head_kind(program, r[1]) != "struct":
                    continue
                seen.add(kk)
            out.append(v)
        return out
    if r[0] == "map":
        n = _rand_count(rng, depth)
        if _empty_struct(program, r[1]):
            n = min(n, 1)
        out, seen = [], set()
        for _ in range(n):
            k = gen_value(rng, program, r[1], depth + 1, as_key=True, safe=safe)
            kk = key_of(k)
            if kk in seen and head_kind(program, r[1]) != "struct":
                continue
            seen.add(kk)
            out.append([k, gen_value(rng, program, r[2], depth + 1, safe=safe)])
        return out
    if r[0] == "bool":
        return rng.random() < 0.5
    if r[0] in INT_RANGE:
        return rand_int(rng, INT_RANGE[r[0]])
    if safe and r[0] in ("double", "string", "binary"):
        # literals the IDL grammar and generateConstantValue are known to carry unchanged
        if r[0] == "double":
            return rng.choice([0.0, 1.5, -2.25, 3.0, 0.1, 1234.5, -7.0, 100.25])
        if r[0] == "string":
            return rng.choice(["", "x", "a default", "with \"quotes\"", "unié", "it's", "k1", "k2", "zz top"])
        return rng.choice([b"", b"abc", b"bin default"])
    if r[0] == "double":
        if as_key:   # Go map keys: NaN never equals itself, +0 == -0; keep keys unambiguous
            return rng.choice([1.0, -1.5, 2.5, 1e10, 3.141592653589793, float(rng.randrange(-50, 50)) + 0.25])
        return rng.choice(SPECIAL_DOUBLES) if rng.random() < 0.6 else rng.uniform(-1e6, 1e6)
    if r[0] == "string":
        return rand_string(rng)
    if r[0] == "binary":
        return rand_bytes(rng)
    raise ValueError(r)


def _empty_struct(program, t):
    r = resolve(program, t)
    if r[0] != "ref":
        return False
    k, d = lookup(program, r[1], r[2])
    return k == "struct" and not d["fields"]


def _rand_count(rng, depth):
    r = rng.random()
    if r < 0.2 or depth >= 6:
        return 0
    if depth >= 3:
        return rng.randrange(0, 2)
    if r < 0.9:
        return rng.randrange(1, 4)
    return rng.randrange(4, 9) if depth == 0 else 3


def gen_struct_value(rng, program, sdef, depth=0):
    v = {}
    fields = sdef["fields"]
    if sdef["kind"] == "union" and fields:
        chosen = rng.choice(fields)
        if depth >= 4:   # recursive unions: end the recursion with a field that is not a struct
            flat = [f for f in fields if head_kind(program, f["type"]) != "struct"]
            chosen = rng.choice(flat) if flat else chosen
        base = new_value(program, sdef)
        val = None
        for attempt in range(4):
            f = chosen
            val = _gen_field_set(rng, program, f, depth)
            for _ in range(8):
                # a chosen member holding exactly its declared default counts as unset in the generated Go (IsSet compares
                # with the default): that value of the union does not exist on the Go side
                if f.get("default") is None or val != f["default"]["value"]:
                    break
                val = gen_value(rng, program, f["type"], depth + 1)
            if f.get("default") is None or val != f["default"]["value"]:
                break
            # the member's type has no other value (an enum of one value whose default is that value): another member
            others = [x for x in fields if x is not chosen and not (depth >= 4 and head_kind(program, x["type"]) == "struct")]
            if not others:
                break
            chosen = rng.choice(others)
        for f in fields:
            v[f["id"]] = val if f is chosen else base[f["id"]]
        return v
    for f in fields:
        gk = go_kind(program, f)
        hk = head_kind(program, f["type"])
        deep = depth >= 4
        if f["mod"] == "optional":
            p_set = (0.0 if depth >= 6 else 0.15) if (deep and hk == "struct") else 0.6
            if gk == "V":
                v[f["id"]] = _gen_field_set(rng, program, f, depth) if rng.random() < p_set else f["default"]["value"]
            else:
                v[f["id"]] = _gen_field_set(rng, program, f, depth) if rng.random() < p_set else None
        else:
            if hk == "struct" and deep and _is_recursive(program, f["type"], sdef):
                v[f["id"]] = _gen_field_set(rng, program, f, depth)  # required recursion is excluded by the generator
            elif gk == "N" and rng.random() < 0.08:
                v[f["id"]] = None        # nil slice/map in a required/default field: written as empty
            else:
                v[f["id"]] = _gen_field_set(rng, program, f, depth)
    return v


def _is_recursive(program, t, sdef):
    return False


def _gen_field_set(rng, program, f, depth):
    if f.get("default") is not None and rng.random() < 0.15:
        return f["default"]["value"]
    return gen_value(rng, program, f["type"], depth + 1)


def zero_value(program, t):
    r = resolve(program, t)
    if r[0] == "ref":
        k, d = lookup(program, r[1], r[2])
        return 0 if k == "enum" else None
    if r[0] in ("list", "set", "map", "binary"):
        return None
    return {"bool": False, "double": 0.0, "string": ""}.get(r[0], 0)


def new_value(program, sdef):
    """The Go-level value `New<T>()` builds: declared default for non-pointer fields, else the zero value."""
    v = {}
    for f in sdef["fields"]:
        gk = go_kind(program, f)
        if f.get("default") is not None and gk != "P":
            v[f["id"]] = f["default"]["value"]
        else:
            v[f["id"]] = None if gk == "P" else zero_value(program, f["type"])
    return v


# ------------------------------------------------------------------------------------------------
# program generator

class _Gen:
    def __init__(self, rng, pid, size, features):
        self.rng = rng
        self.pid = pid
        self.size = size
        self.feat = dict(DEFAULT_FEATURES)
        self.feat.update(features or {})
        self.n = 0
        self.program = {"id": pid, "files": {}, "order": [], "root": None}

    def uid(self):
        self.n += 1
        return self.n

    def name(self, styles):
        return self.rng.choice(styles) % self.uid()

    # --- types -----------------------------------------------------------------------------
    def visible(self, fn):
        f = self.program["files"][fn]
        return [fn] + list(f["includes"])

    def named(self, fn, kinds):
        """declared things of the given kinds visible from file fn: [(file, kind, def)]"""
        out = []
        for vf in self.visible(fn):
            f = self.program["files"][vf]
            if "typedef" in kinds:
                out += [(vf, "typedef", d) for d in f["typedefs"] if vf == fn or self._typedef_ok_across(vf, d)]
            if "enum" in kinds:
                out += [(vf, "enum", d) for d in f["enums"]]
            if "struct" in kinds:
                out += [(vf, "struct", d) for d in f["structs"] if d["kind"] != "exception"]
        return out

    def _typedef_ok_across(self, vf, d):
        """A typedef used from another file: without the feature flag only typedefs whose target mentions no
        declaration at all are used (frugal resolves the rest of the chain in the wrong scope, F15)."""
        if self.feat["typedef_chain_include"]:
            return True
        return not _mentions_ref(d["type"])

    def rand_type(self, fn, depth=0, key=False, no_struct=False):
        rng = self.rng
        r = rng.random()
        if key:
            # comparable Go types only
            c = rng.random()
            if c < 0.55:
                return [rng.choice(["bool", "byte", "i8", "i16", "i32", "i64", "double", "string", "string", "i32"])]
            cands = [x for x in self.named(fn, ("typedef", "enum", "struct"))
                     if self._keyable(x[0], x[1], x[2], no_struct)]
            if cands:
                vf, k, d = rng.choice(cands)
                return ["ref", vf, d["name"]]
            return ["i32"]
        if r < 0.38 or depth >= 3:
            return [rng.choice(BASE)]
        if r < 0.62:
            kinds = ("typedef", "enum") if no_struct else ("typedef", "enum", "struct")
            cands = self.named(fn, kinds)
            if no_struct:
                cands = [c for c in cands if c[1] != "typedef" or
                         head_kind(self.program, ["ref", c[0], c[2]["name"]]) != "struct" and
                         not _type_mentions_struct(self.program, c[2]["type"])]
            if cands:
                vf, k, d = rng.choice(cands)
                return ["ref", vf, d["name"]]
            return [rng.choice(BASE)]
        c = rng.random()
        if c < 0.4:
            return ["list", self.rand_type(fn, depth + 1, no_struct=no_struct)]
        if c < 0.6:
            return ["set", self.rand_type(fn, depth + 1, key=True, no_struct=no_struct)]
        return ["map", self.rand_type(fn, depth + 1, key=True, no_struct=no_struct),
                self.rand_type(fn, depth + 1, no_struct=no_struct)]

    def _keyable(self, vf, k, d, no_struct):
        if k == "enum":
            return True
        if k == "struct":
            return not no_struct
        hk = head_kind(self.program, ["ref", vf, d["name"]])
        if hk in ("list", "set", "map", "base:binary"):
            return False
        if hk == "struct":
            return not no_struct
        return True

    # --- declarations ------------------------------------------------------------------------
    def gen_enum(self, fn):
        rng = self.rng
        n = rng.randrange(1, 6)
        vals, used = [], set()
        for i in range(n):
            v = rng.choice([i, i + 1, rng.randrange(0, 50), rng.randrange(0, 100000), 2147483647 if i == n - 1 and rng.random() < 0.1 else i * 3])
            while v in used:
                v += 1
            used.add(v)
            vals.append([rng.choice(["V%d", "VAL_%d", "v%d", "Opt%d"]) % self.uid(), v])
        return {"name": self.name(["E%d", "Enum%d", "kind_%d", "HTTPCode%d"]), "values": vals}

    def gen_typedefs(self, fn, count):
        f = self.program["files"][fn]
        for _ in range(count):
            r = self.rng.random()
            if r < 0.35 and f["typedefs"]:
                # typedef chain inside the file
                tgt = self.rng.choice(f["typedefs"])
                t = ["ref", fn, tgt["name"]]
            elif r < 0.5:
                cands = self.named(fn, ("enum", "typedef"))
                cands = [c for c in cands if head_kind(self.program, ["ref", c[0], c[2]["name"]]) != "struct"]
                if not cands:
                    continue
                vf, k, d = self.rng.choice(cands)
                t = ["ref", vf, d["name"]]
            elif r < 0.55 and self.feat["typedef_struct"]:
                cands = self.named(fn, ("struct",))
                if not cands:
                    continue
                vf, k, d = self.rng.choice(cands)
                t = ["ref", vf, d["name"]]
            else:
                t = self.rand_type(fn, depth=1)
                if not self.feat["typedef_struct"] and _type_head_struct(self.program, t):
                    continue
            nm = self.name(["T%d", "my_type_%d", "Id%d", "alias%d"])
            if self.feat.get("name_collision") and self.rng.random() < 0.35:
                mine = {d["name"] for d in f["typedefs"]}
                theirs = [d["name"] for inc in f["includes"] for d in self.program["files"][inc]["typedefs"]
                          if d["name"] not in mine]
                if theirs:
                    nm = self.rng.choice(theirs)
            f["typedefs"].append({"name": nm, "type": t})
        # at least one typedef name shared with an include, with a different base type here, whenever that is possible
        if self.feat.get("name_collision"):
            mine = {d["name"] for d in f["typedefs"]}
            theirs = [(inc, d) for inc in f["includes"] for d in self.program["files"][inc]["typedefs"]
                      if head_kind(self.program, ["ref", inc, d["name"]]).startswith("base:")]
            if theirs and not any(d["name"] in mine for _, d in theirs):
                inc, d = self.rng.choice(theirs)
                hk = head_kind(self.program, ["ref", inc, d["name"]])
                other = self.rng.choice([b for b in ("i64", "i32", "string", "double", "i16") if "base:" + b != hk])
                f["typedefs"].append({"name": d["name"], "type": [other]})

    def gen_default(self, fn, t, mod):
        """A default value for a field of type t, or None.  Kept to what generateConstantValue renders correctly."""
        rng = self.rng
        hk = head_kind(self.program, t)
        if rng.random() > 0.4:
            return None
        if hk == "struct":
            return None
        if not _default_safe(self.program, t):
            return None
        v = gen_value(rng, self.program, t, depth=2, safe=True)
        if hk == "enum":
            r = resolve(self.program, t)
            v = rng.choice([b for _, b in lookup(self.program, r[1], r[2])[1]["values"]])
        d = {"value": v, "const": None}
        # now and then through a named constant of the same file
        f = self.program["files"][fn]
        if self.feat["consts"] and hk.startswith("base:") and hk != "base:binary" and rng.random() < 0.3:
            cn = self.name(["C%d", "const_%d", "DEFAULT_%d"])
            f["consts"].append({"name": cn, "type": t, "value": v})
            d["const"] = [fn, cn]
        return d

    def gen_fields(self, fn, n, kind, self_ref=None):
        rng = self.rng
        fields, ids = [], set()
        nid = 0
        for i in range(n):
            nid += rng.choice([1, 1, 1, 2, 5, 100]) if nid < 30000 else 1
            fid = nid
            mod = "optional" if kind == "union" else rng.choice(["default", "default", "optional", "optional", "required"])
            t = self.rand_type(fn)
            if self_ref and rng.random() < 0.5:
                t = rng.choice([["ref", fn, self_ref], ["list", ["ref", fn, self_ref]],
                                ["map", ["string"], ["ref", fn, self_ref]]])
                if t[0] == "ref":
                    mod = "optional"
                self_ref = None
            dflt = None if kind == "union" and rng.random() < 0.8 else self.gen_default(fn, t, mod)
            nm = rng.choice(["f%d", "field_%d", "aField%d", "ID%d", "user_id_%d", "Val%d", "x%d"]) % self.uid()
            fields.append({"id": fid, "name": nm, "mod": mod, "type": t, "default": dflt})
        return fields

    def gen_struct(self, fn, kind):
        rng = self.rng
        nm = self.name({"struct": ["S%d", "my_struct_%d", "Rec%d", "thing%d_args"] + (["NewThing%d"] if self.feat["new_prefix"] else []),
                        "union": ["U%d", "choice_%d"], "exception": ["Ex%d", "err_%d", "Fail%dResult"]}[kind])
        n = rng.choice([0, 1, 2, 3, 4, 5, 6, 8]) if kind != "union" else rng.randrange(1, 5)
        rec = nm if (self.feat["recursive"] and kind == "struct" and rng.random() < 0.15) else None
        s = {"name": nm, "kind": kind, "fields": []}
        # register first so that recursive references resolve
        self.program["files"][fn]["structs"].append(s)
        s["fields"] = self.gen_fields(fn, n, kind, self_ref=rec)
        if kind == "union" and head_kind(self.program, s["fields"][0]["type"]) == "struct":
            # every union keeps a field that is not a struct, so that a finite value exists
            s["fields"][0]["type"] = [rng.choice(["i32", "string", "bool", "i64"])]
            s["fields"][0]["default"] = None
        return s

    def gen_sink(self, fn):
        rng = self.rng
        f = self.program["files"][fn]
        en = ["ref", fn, f["enums"][0]["name"]]
        types = [[b] for b in BASE] + [en, ["list", ["i32"]], ["set", ["string"]], ["map", ["i16"], ["double"]],
                                       ["list", en], ["map", en, ["list", ["binary"]]]]
        tds = [d for d in f["typedefs"] if head_kind(self.program, ["ref", fn, d["name"]]) != "struct"]
        if tds:
            types.append(["ref", fn, rng.choice(tds)["name"]])
        fields, fid = [], 0
        for t in types:
            for mod, with_def in (("required", False), ("default", False), ("default", True),
                                  ("optional", False), ("optional", True)):
                d = None
                if with_def:
                    if not _default_safe(self.program, t):
                        continue
                    v = gen_value(rng, self.program, t, depth=2, safe=True)
                    if head_kind(self.program, t) == "enum":
                        r = resolve(self.program, t)
                        v = rng.choice([b for _, b in lookup(self.program, r[1], r[2])[1]["values"]])
                    d = {"value": v, "const": None}
                fid += 1
                fields.append({"id": fid, "name": "k%d" % self.uid(), "mod": mod, "type": t, "default": d})
        # a typedef name this file shares with one of its includes: fields of BOTH (the local one and the include's, written
        # inc.name, alone and inside a container), so that a mix-up of the two shows on the wire whenever they differ
        mine = {d["name"] for d in f["typedefs"]}
        for inc in f["includes"]:
            for d in self.program["files"][inc]["typedefs"]:
                if d["name"] in mine and head_kind(self.program, ["ref", inc, d["name"]]) != "struct" \
                        and not _leaves_file(self.program, inc, d["type"]):
                    for t in (["ref", inc, d["name"]], ["list", ["ref", inc, d["name"]]], ["ref", fn, d["name"]]):
                        if t[0] == "ref" and t[1] == fn and head_kind(self.program, t) == "struct":
                            continue
                        fid += 1
                        fields.append({"id": fid, "name": "shared%d" % self.uid(), "mod": rng.choice(["default", "optional", "required"]),
                                       "type": t, "default": None})
        f["structs"].append({"name": self.name(["Sink%d"]), "kind": "struct", "fields": fields})
        # and a union over the same types
        ufields = [{"id": i + 1, "name": "u%d" % self.uid(), "mod": "optional", "type": t, "default": None}
                   for i, t in enumerate(types)]
        f["structs"].append({"name": self.name(["USink%d"]), "kind": "union", "fields": ufields})
        # a union whose scalar members declare defaults other than Go's zero values: choosing one member must not make
        # the others count as set (their fields hold their defaults in New<Union>())
        dfields = []
        for i, t in enumerate([["i32"], ["string"], ["bool"], ["double"], ["i64"], ["i16"], en]):
            v = None
            for _ in range(20):
                v = gen_value(rng, self.program, t, depth=2, safe=True)
                if head_kind(self.program, t) == "enum":
                    r = resolve(self.program, t)
                    v = rng.choice([b for _, b in lookup(self.program, r[1], r[2])[1]["values"]])
                if v not in (0, "", False, 0.0, None):
                    break
            dfields.append({"id": i + 1, "name": "d%d" % self.uid(), "mod": "optional", "type": t,
                            "default": None if v in (0, "", False, 0.0, None) else {"value": v, "const": None}})
        f["structs"].append({"name": self.name(["UDef%d"]), "kind": "union", "fields": dfields})

    def gen_service(self, fn):
        rng = self.rng
        f = self.program["files"][fn]
        ext = None
        cands = [(vf, s) for vf in self.visible(fn) for s in self.program["files"][vf]["services"]]
        if cands and rng.random() < 0.6:
            vf, s = rng.choice(cands)
            ext = [vf, s["name"]]
        inherited = set()
        if ext:
            inherited = {m["name"].lower() for _, _, m in service_methods(self.program, ext[0], ext[1])}
        methods = []
        excs = [(vf, d) for vf in self.visible(fn) for d in self.program["files"][vf]["structs"] if d["kind"] == "exception"]
        for _ in range(rng.randrange(1, 5)):
            mn = rng.choice(["do%d", "get_thing_%d", "Ping%d", "m%d"]) % self.uid()
            if mn.lower() in inherited:
                continue
            oneway = rng.random() < 0.2
            args = self.gen_fields(fn, rng.randrange(0, 4), "args")
            for a in args:
                a["name"] = a["name"].lower().replace("_", "") + "a"   # Go parameter names are lower-cased by the generator
            if args and rng.random() < 0.3:
                # an argument named like an identifier of the generated method itself, a Go keyword or a predeclared name,
                # in lower case and capitalised (the generator renames the Go parameter; the wire name stays)
                a = rng.choice(args)
                a["name"] = rng.choice(["err", "Err", "r", "R", "f", "F", "fctx", "Fctx", "nil", "Nil", "result", "Result", "args",
                                        "Args", "ret", "Ret", "type", "Type", "func", "range", "Range", "len", "true", "iota"])
            ret = None if (oneway or rng.random() < 0.25) else self.rand_type(fn)
            if not self.feat["service_typedef_foreign"]:
                # a service file imports only the includes its signatures name directly (known finding of C02)
                for a in args:
                    if _foreign_via_typedef(self.program, fn, a["type"]):
                        a["type"], a["default"] = ["i32"], None
                if ret is not None and _foreign_via_typedef(self.program, fn, ret):
                    ret = ["i64"]
            throws = []
            if not oneway and excs and rng.random() < 0.6:
                for i, (vf, d) in enumerate(rng.sample(excs, min(len(excs), rng.randrange(1, 3)))):
                    throws.append({"id": i + 1, "name": "e%d" % self.uid(), "mod": "default",
                                   "type": ["ref", vf, d["name"]], "default": None})
            methods.append({"name": mn, "oneway": oneway, "ret": ret, "args": args, "throws": throws})
        # every other service has a method that returns a union of its file (what a handler returns there may be a value
        # the generated Write refuses part-way); decided by a generator of its own: the main stream stays as it was
        unions = [d for d in f["structs"] if d["kind"] == "union"]
        own = random.Random("%s/%s/%d" % (self.pid, fn, len(f["services"])))
        if unions and own.random() < 0.5:
            mn = "pick%d" % self.uid()
            if mn.lower() not in inherited:
                u = own.choice(unions)
                methods.append({"name": mn, "oneway": False, "ret": ["ref", fn, u["name"]],
                                "args": [{"id": 1, "name": "whicha", "mod": "default", "type": ["i32"], "default": None}],
                                "throws": []})
        svc = {"name": self.name(["Svc%d", "Store%d"] + (["my_service_%d"] if self.feat["snake_service"] else [])),
               "extends": ext, "methods": methods}
        f["services"].append(svc)

    def gen_scope(self, fn):
        rng = self.rng
        pv = rng.choice([("", []), ("pre", []), ("a.{user}", ["user"]), ("{t1}.x.{t2}", ["t1", "t2"])])
        ops = [{"name": rng.choice(["Created%d", "thing_updated_%d", "Op%d"]) % self.uid(), "type": self.rand_type(fn)}
               for _ in range(rng.randrange(1, 4))]
        for o in ops:
            if not self.feat["service_typedef_foreign"] and _foreign_via_typedef(self.program, fn, o["type"]):
                o["type"] = ["string"]
        self.program["files"][fn]["scopes"].append({"name": self.name(["Events%d", "scope_%d"]), "prefix": pv[0],
                                                    "vars": pv[1], "ops": ops})

    def gen_file(self, fn, includes, scale):
        rng = self.rng
        f = {"name": fn, "includes": includes, "typedefs": [], "enums": [], "consts": [], "structs": [],
             "services": [], "scopes": [], "decl_order": rng.choice(["natural", "structs_first"])}
        self.program["files"][fn] = f
        self.program["order"].append(fn)
        for _ in range(rng.randrange(1, 2 + scale)):
            f["enums"].append(self.gen_enum(fn))
        self.gen_typedefs(fn, rng.randrange(1, 3 + scale))
        kinds = ["struct"] * (2 + 2 * scale) + ["union"] * scale + ["exception"] * scale
        rng.shuffle(kinds)
        kinds = kinds[:rng.randrange(3, 3 + 3 * scale)]
        if "exception" not in kinds:
            kinds.append("exception")
        for k in kinds:
            self.gen_struct(fn, k)
            if rng.random() < 0.3:
                self.gen_typedefs(fn, 1)
        # one struct per file with every base type / enum / container under every modifier, with and without default
        if f["enums"]:
            self.gen_sink(fn)
        # the showcase shape named in the brief: map<enum, list<struct>>
        structs = [s for s in f["structs"] if s["kind"] == "struct"]
        if structs and f["enums"]:
            tgt = rng.choice(structs)
            fid = max([x["id"] for x in tgt["fields"]] + [0]) + 1
            inner = rng.choice([s for s in structs])
            tgt["fields"].append({"id": fid, "name": "by_kind_%d" % self.uid(), "mod": rng.choice(["default", "optional"]),
                                  "type": ["map", ["ref", fn, f["enums"][0]["name"]], ["list", ["ref", fn, inner["name"]]]],
                                  "default": None})
        if self.feat["services"]:
            for _ in range(rng.randrange(1, 2 + (scale > 1))):
                self.gen_service(fn)
        if self.feat["scopes"] and rng.random() < 0.7:
            self.gen_scope(fn)


def _leaves_file(program, home, t):
    """does type t, written in file home, mention (directly or through typedefs) a declaration of another file?  (a typedef
    of an include that stands for a type of the include's OWN include cannot be named by the includer: known finding C11-K2)"""
    if t[0] == "ref":
        if t[1] != home:
            return True
        k, d = lookup(program, t[1], t[2])
        return k == "typedef" and _leaves_file(program, home, d["type"])
    return any(_leaves_file(program, home, x) for x in t[1:] if isinstance(x, list))


def _foreign_via_typedef(program, fn, t, via=False):
    """does t reach, through a typedef, a declaration of another file?"""
    if t[0] == "ref":
        k, d = lookup(program, t[1], t[2])
        if via and t[1] != fn:
            return True
        if k == "typedef":
            return _foreign_via_typedef(program, fn, d["type"], True)
        return False
    return any(_foreign_via_typedef(program, fn, x, via) for x in t[1:] if isinstance(x, list))


def _mentions_ref(t):
    if t[0] == "ref":
        return True
    return any(_mentions_ref(x) for x in t[1:] if isinstance(x, list))


def _type_head_struct(program, t):
    return head_kind(program, t) == "struct"


def _type_mentions_struct(program, t):
    if t[0] == "ref":
        k, d = lookup(program, t[1], t[2])
        if k == "struct":
            return True
        if k == "typedef":
            return _type_mentions_struct(program, d["type"])
        return False
    return any(_type_mentions_struct(program, x) for x in t[1:] if isinstance(x, list))


def _default_safe(program, t):
    """Defaults are generated for base types, enums and containers of those (no structs inside)."""
    r = resolve(program, t)
    if r[0] == "ref":
        return lookup(program, r[1], r[2])[0] == "enum"
    if r[0] in ("list", "set"):
        return _default_safe(program, r[1]) and head_kind(program, r[1]) != "base:binary"
    if r[0] == "map":
        return _default_safe(program, r[1]) and _default_safe(program, r[2]) and \
            head_kind(program, r[2]) != "base:binary"
    return True


def break_required_cycles(program):
    """A struct that (transitively) *requires* a value of itself has no finite value: make such fields optional."""
    for fn, s in all_structs(program):
        for f in s["fields"]:
            if f["mod"] != "optional" and head_kind(program, f["type"]) == "struct":
                r = resolve(program, f["type"])
                if _reaches(program, r, (fn, s["name"]), set()):
                    f["mod"] = "optional"
                    f["default"] = None


def _reaches(program, r, target, seen):
    key = (r[1], r[2])
    if key == target:
        return True
    if key in seen:
        return False
    seen.add(key)
    k, d = lookup(program, r[1], r[2])
    for f in d["fields"]:
        if f["mod"] != "optional" and head_kind(program, f["type"]) == "struct":
            if _reaches(program, resolve(program, f["type"]), target, seen):
                return True
    return False


def gen_program(rng, pid, size="small", features=None):
    g = _Gen(rng, pid, size, features)
    scale = {"small": 1, "medium": 2, "large": 3}[size]
    nfiles = {"small": 2, "medium": 3, "large": 4}[size]
    names = ["%s%s" % (pid, "abcdefgh"[i]) for i in range(nfiles)]
    # leaves first; every later file includes a non-empty subset of the earlier ones
    for i, fn in enumerate(names):
        prev = names[:i]
        inc = [p for p in prev if rng.random() < 0.7]
        if prev and not inc:
            inc = [prev[-1]]
        g.gen_file(fn, inc, scale)
    g.program["root"] = names[-1]
    # make sure the root reaches every file through includes (frugal -r follows includes only)
    reach, todo = set(), [names[-1]]
    while todo:
        x = todo.pop()
        if x not in reach:
            reach.add(x)
            todo += g.program["files"][x]["includes"]
    for fn in names:
        if fn not in reach:
            g.program["files"][names[-1]]["includes"].append(fn)
    break_required_cycles(g.program)
    return g.program


# ------------------------------------------------------------------------------------------------
# JSON wire form of values (what tools/lab.py sends to / receives from the driver)

def to_wire(program, t, v):
    """model value -> JSON form of harness/lab/driver: ints as numbers, double as 16 hex digits of its bits,
    string/binary as hex of the bytes, list as array, set as array of [v, true], map as array of [k, v],
    struct as {"<id>": value|null}."""
    if v is None:
        return None
    r = resolve(program, t)
    if r[0] == "ref":
        k, d = lookup(program, r[1], r[2])
        if k == "enum":
            return v
        return struct_to_wire(program, d, v)
    if r[0] == "list":
        return [to_wire(program, r[1], x) for x in v]
    if r[0] == "set":
        return [[to_wire(program, r[1], x), True] for x in v]
    if r[0] == "map":
        return [[to_wire(program, r[1], k), to_wire(program, r[2], x)] for k, x in v]
    if r[0] == "double":
        return "%016x" % f64_bits(v)
    if r[0] == "string":
        return v.encode("utf8").hex()
    if r[0] == "binary":
        return bytes(v).hex()
    return v


def struct_to_wire(program, sdef, v):
    return {str(f["id"]): to_wire(program, f["type"], v.get(f["id"])) for f in sdef["fields"] if f["id"] in v}


def from_wire(program, t, j):
    if j is None:
        return None
    r = resolve(program, t)
    if r[0] == "ref":
        k, d = lookup(program, r[1], r[2])
        if k == "enum":
            return int(j)
        return struct_from_wire(program, d, j)
    if r[0] == "list":
        return [from_wire(program, r[1], x) for x in j]
    if r[0] == "set":
        return [from_wire(program, r[1], x[0]) for x in j if x[1]]
    if r[0] == "map":
        return [[from_wire(program, r[1], k), from_wire(program, r[2], x)] for k, x in j]
    if r[0] == "double":
        return bits_f64(int(j, 16))
    if r[0] == "string":
        return bytes.fromhex(j).decode("utf8", "surrogateescape")
    if r[0] == "binary":
        return bytes.fromhex(j)
    if r[0] == "bool":
        return bool(j)
    return int(j)


def struct_from_wire(program, sdef, j):
    return {f["id"]: from_wire(program, f["type"], j.get(str(f["id"]))) for f in sdef["fields"]}


def canon(program, t, v):
    """Canonical, hashable, order-insensitive form for comparing values (sets/maps sorted, doubles by bits)."""
    if v is None:
        return None
    r = resolve(program, t)
    if r[0] == "ref":
        k, d = lookup(program, r[1], r[2])
        if k == "enum":
            return v
        return tuple((f["id"], canon(program, f["type"], v.get(f["id"]))) for f in d["fields"])
    if r[0] == "list":
        return tuple(canon(program, r[1], x) for x in v)
    if r[0] == "set":
        return tuple(sorted((canon(program, r[1], x) for x in v), key=repr))
    if r[0] == "map":
        return tuple(sorted(((canon(program, r[1], k), canon(program, r[2], x)) for k, x in v), key=repr))
    if r[0] == "double":
        return ("d", f64_bits(v))
    if r[0] == "binary":
        return bytes(v)
    return v


if __name__ == "__main__":
    import random
    import sys
    p = gen_program(random.Random(int(sys.argv[1]) if len(sys.argv) > 1 else 1), "q1", sys.argv[2] if len(sys.argv) > 2 else "small")
    for k, v in render(p).items():
        print("=====", k)
        print(v)
