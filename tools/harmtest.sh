#!/bin/bash
# usage: harmtest.sh <patch.diff> "<C01 C06 ...>"  -- applies a behaviour-preserving patch to /repo, runs the named checks, undoes it.
# Every line "... VIOLATION" here is a false alarm of the machinery (or shows the patch is not behaviour-preserving after all).
set -u
patch=$1; props=$2
git -C /repo apply "$patch" || { echo "PATCH-DOES-NOT-APPLY $patch"; exit 1; }
for P in $props; do
  c=$(cd /verif && timeout 2400 python3 tools/check.py $P 2>&1 | grep -v "^KNOWN" | tail -30)
  if echo "$c" | grep -q "^VIOLATION"; then
    first=$(ls /verif/replays/$P-*.json 2>/dev/null | head -1)
    what=$(python3 -c "import json;d=json.load(open('$first'));print(d['what'][:160],'|',str(d['replay'].get('broken',''))[:80], '|', str(d['replay'].get('detail',''))[:300])" 2>/dev/null)
    echo "HARM $(basename $(dirname $(dirname $patch))) $P ALARM :: $what"
  else echo "HARM $(basename $(dirname $(dirname $patch))) $P quiet"; fi
done
git -C /repo checkout -q -- .
