#!/usr/bin/env python3
"""Numbers quoted in DESIGN.md section 0, recomputed from the trees."""
import glob, json, os, re, subprocess
V = os.path.dirname(os.path.dirname(os.path.abspath(__file__)))
def lines(pats):
    n = 0
    for p in pats:
        for f in glob.glob(os.path.join(V, p), recursive=True):
            if os.path.isfile(f):
                n += sum(1 for _ in open(f, errors="replace"))
    return n
coq = lines(["coq/theories/**/*.v"])
gen = lines(["coq/theories/Gen/*.v"])
go = lines(["harness/**/*.go", "translator/*.go"])
py = lines(["tools/**/*.py", "tools/*.sh"])
per = {}
tot = 0
for f in sorted(glob.glob(os.path.join(V, "coq/theories/Props/C*.v"))):
    s = open(f).read()
    th = re.findall(r"^Theorem\s+(\w+)", s, re.M)
    per[os.path.basename(f)[:-2]] = (len(th), sum(1 for t in th if t.endswith("_partial")), sum(1 for t in th if "_refuted" in t))
    tot += len(th)
log = subprocess.run(["git", "-C", os.environ.get("VERIF_REPO", "/repo"), "log", "--format=%s"], capture_output=True, text=True).stdout.splitlines()
kf = json.load(open(os.path.join(V, "known_findings.json")))
print("coq lines %d (of which Gen %d)  go %d  python/sh %d" % (coq, gen, go, py))
print("property theorems %d" % tot)
print("fix commits %d  verif commits %d  findings %d  fixed-list %d" % (
    sum(1 for l in log if l.startswith("fix:")), sum(1 for l in log if l.startswith("verif:")), len(kf["findings"]), len(kf["fixed"])))
for k, v in per.items():
    print(" %s: %d theorems (%d partial, %d refuted)" % ((k,) + v))
print("seeds kept:", len(glob.glob(os.path.join(V, "seeded/C*-seed*"))))
