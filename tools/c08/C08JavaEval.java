// C08 test equipment: compiles and runs, with the JDK's own compiler and String.format, the
// topic statements extracted from generated Java publishers / subscribers.
// stdin : one request per line: hex(class name) TAB hex(java source) { TAB hex(value) }
//         the class must have a static method f; its String parameters receive the values in
//         order, every other parameter null.
// stdout: one line per request: "OK <hex of the returned string>" or "ERR <hex of the reason>"
import java.io.*;
import java.lang.reflect.*;
import java.net.URI;
import java.nio.charset.StandardCharsets;
import java.util.*;
import javax.tools.*;

public class C08JavaEval {
    static class Src extends SimpleJavaFileObject {
        final String code;
        Src(String name, String code) { super(URI.create("string:///" + name + ".java"), Kind.SOURCE); this.code = code; }
        @Override public CharSequence getCharContent(boolean ignore) { return code; }
    }
    static class Out extends SimpleJavaFileObject {
        final ByteArrayOutputStream bos = new ByteArrayOutputStream();
        Out(String name) { super(URI.create("mem:///" + name.replace('.', '/') + ".class"), Kind.CLASS); }
        @Override public OutputStream openOutputStream() { return bos; }
    }
    static class FM extends ForwardingJavaFileManager<StandardJavaFileManager> {
        final Map<String, Out> outs = new HashMap<>();
        FM(StandardJavaFileManager m) { super(m); }
        @Override public JavaFileObject getJavaFileForOutput(Location l, String cn, JavaFileObject.Kind k, FileObject sib) {
            Out o = new Out(cn); outs.put(cn, o); return o;
        }
    }
    static class Loader extends ClassLoader {
        final Map<String, Out> outs;
        Loader(Map<String, Out> outs) { super(C08JavaEval.class.getClassLoader()); this.outs = outs; }
        @Override protected Class<?> findClass(String name) throws ClassNotFoundException {
            Out o = outs.get(name);
            if (o == null) throw new ClassNotFoundException(name);
            byte[] b = o.bos.toByteArray();
            return defineClass(name, b, 0, b.length);
        }
    }
    static String unhex(String h) {
        byte[] b = new byte[h.length() / 2];
        for (int i = 0; i < b.length; i++) b[i] = (byte) Integer.parseInt(h.substring(2 * i, 2 * i + 2), 16);
        return new String(b, StandardCharsets.UTF_8);
    }
    static String hex(String s) {
        StringBuilder sb = new StringBuilder();
        for (byte b : s.getBytes(StandardCharsets.UTF_8)) sb.append(String.format("%02x", b & 0xff));
        return sb.toString();
    }
    public static void main(String[] a) throws Exception {
        JavaCompiler jc = ToolProvider.getSystemJavaCompiler();
        StandardJavaFileManager std = jc.getStandardFileManager(null, null, StandardCharsets.UTF_8);
        BufferedReader in = new BufferedReader(new InputStreamReader(System.in, StandardCharsets.UTF_8));
        PrintStream out = new PrintStream(new FileOutputStream(FileDescriptor.out), false, "UTF-8");
        String line;
        while ((line = in.readLine()) != null) {
            if (line.isEmpty()) continue;
            String[] f = line.split("\t", -1);
            String res;
            try {
                String cn = unhex(f[0]);
                String code = unhex(f[1]);
                DiagnosticCollector<JavaFileObject> diag = new DiagnosticCollector<>();
                FM fm = new FM(std);
                boolean ok = jc.getTask(null, fm, diag, Arrays.asList("-proc:none", "-nowarn"), null,
                        Collections.singletonList(new Src(cn, code))).call();
                if (!ok) {
                    StringBuilder sb = new StringBuilder("compile: ");
                    for (Diagnostic<?> d : diag.getDiagnostics()) if (d.getKind() == Diagnostic.Kind.ERROR) { sb.append(d.getMessage(null)); break; }
                    res = "ERR " + hex(sb.toString());
                } else {
                    Class<?> c = new Loader(fm.outs).loadClass(cn);
                    Method m = null;
                    for (Method x : c.getDeclaredMethods()) if (x.getName().equals("f")) m = x;
                    Class<?>[] pt = m.getParameterTypes();
                    Object[] args = new Object[pt.length];
                    int vi = 2;
                    for (int i = 0; i < pt.length; i++) if (pt[i] == String.class) { args[i] = vi < f.length ? unhex(f[vi]) : null; vi++; }
                    if (vi != f.length) res = "ERR " + hex("string parameters and values differ in number");
                    else {
                        m.setAccessible(true);
                        try { res = "OK " + hex((String) m.invoke(null, args)); }
                        catch (InvocationTargetException e) { res = "ERR " + hex("raised: " + e.getCause()); }
                    }
                }
            } catch (Throwable t) {
                res = "ERR " + hex("runner: " + t);
            }
            out.println(res);
            out.flush();
        }
    }
}
