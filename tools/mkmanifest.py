#!/usr/bin/env python3
"""Writes /verif/MANIFEST.json from the table below (kept in one place so it stays valid)."""
import json
import os
import subprocess

VERIF = os.path.dirname(os.path.dirname(os.path.abspath(__file__)))
ALL = ["C%02d" % i for i in range(1, 21)]

CHECKS = {
    "C04": dict(
        text="Coq theorems over Model/Headers.v (a byte-level transcription of protocol.go's v0 codec and of the Python codec): "
             "layout as documented, stream and frame round trips for every header list and payload with total size < 2^31, "
             "Python/Go agreement. The model is tied to the code on every run by a correspondence check: writers, readers, "
             "addHeadersToFrame and the Python codec are run on seeded maps and the observations are replayed on the model "
             "inside Coq (vm_compute judge); a direct oracle restates the property on the observations alone.",
        note="Trusted: Coq kernel + vm_compute; harness/tools as test equipment; header block < 2^31 bytes; Go map order treated as arbitrary.",
        technique="Coq proof (round-trip by induction) + vm_compute trace-validation judge against the Go/Python codecs",
        design="5/C04"),
    "C05": dict(
        text="Coq theorems: both header parsers, ExecuteFrame and ReadRequestHeader are graceful (value or error, never a Go "
             "slice/makeslice panic, never out of fuel) on EVERY byte string below 2 GiB; each message-oriented receiver loop "
             "(NATS inbox, NATS server worker, NATS/STOMP scope subscriber, HTTP handler) never exits or crashes and judges each "
             "message on its own; the adapter read loop always ends in a closed state. The models keep Go's partiality explicit "
             "(Panic results for out-of-range slices), so totality is a real theorem about the bounds checks. Tied to the code by "
             "a correspondence check that feeds boundary-value, exhaustive-small and mutated inputs to every real entry point "
             "(embedded NATS/STOMP brokers, httptest, net.Pipe) and replays them on the model; partial: the Thrift layer under "
             "the header is a parameter assumed graceful.",
        note="Trusted: Coq kernel + vm_compute; harness as test equipment; Apache Thrift readers assumed graceful (exercised only); messages < 2^31 bytes.",
        technique="Coq totality proofs over a Go-partiality model + vm_compute trace-validation judge on all receiving entry points",
        design="5/C05"),
}

NOT_YET = "check not built yet in this round; design in DESIGN.md section 5"


def main():
    hooks_commits = subprocess.run(["git", "-C", "/repo", "log", "--format=%H %s"], capture_output=True,
                                   text=True).stdout.split("\n")
    hook_commits = [l.split()[0] for l in hooks_commits if " verif:" in l or l.split(" ", 1)[-1].startswith("verif")]
    m = {
        "version": 1,
        "setup_cmd": "python3 tools/setup.py",
        "hooks": {
            "guard": "verif",
            "enable": "go build -tags verif (files lib/go/verif_*.go carry //go:build verif; call sites use verifYield which is an empty inlinable function without the tag)",
            "baseline_off_cmd": "for m in $(cat /w/out/gomods.txt); do MF=$(cd /repo/$m && . /w/out/goenv.sh && gomodflag); (cd /repo/$m && go test $MF -json -vet=off -count=1 -timeout 25m ./...); done",
            "source_commits": hook_commits,
            "add_only": True,
        },
        "engines": [
            {"name": "coq", "path": "coq/", "serves_properties": sorted(CHECKS), "kind_free_text": "Coq 8.16.1 models, proofs and vm_compute judges"},
            {"name": "vh", "path": "harness/", "serves_properties": sorted(CHECKS), "kind_free_text": "Go harness driving the real implementation (build tag verif)"},
        ],
        "checks": [],
        "not_applicable": [],
        "notes": "All checks: python3 tools/check.py <id> [--tier quick|thorough] [--replay file]; VERIF_SEED honoured.",
    }
    for pid in ALL:
        if pid in CHECKS:
            c = CHECKS[pid]
            m["checks"].append({
                "property_id": pid,
                "quick_cmd": "python3 tools/check.py %s --tier quick" % pid,
                "thorough_cmd": "python3 tools/check.py %s --tier thorough" % pid,
                "evidence_file": "/verif/evidence/%s.json" % pid,
                "replay_cmd_template": "python3 tools/check.py %s --replay {path}" % pid,
                "engine": "coq",
                "level_claimed": {"category": "proof", "text": c["text"], "design_ref": c["design"]},
                "level_note": c["note"],
                "technique": c["technique"],
            })
        else:
            m["not_applicable"].append({"property_id": pid, "reason": NOT_YET})
    with open(os.path.join(VERIF, "MANIFEST.json"), "w") as fh:
        json.dump(m, fh, indent=1)
    print("wrote MANIFEST.json: %d checks, %d not claimed" % (len(m["checks"]), len(m["not_applicable"])))


if __name__ == "__main__":
    main()
