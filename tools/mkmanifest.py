#!/usr/bin/env python3
"""Writes /verif/MANIFEST.json from the table below (kept in one place so it stays valid)."""
import json
import os
import subprocess

VERIF = os.path.dirname(os.path.dirname(os.path.abspath(__file__)))
ALL = ["C%02d" % i for i in range(1, 21)]

CHECKS = {
    "C01": dict(
        text="Coq theorems (no axioms) over an interleaving small-step model of registry.go and Request of BOTH transports built on it (a transport-kind "
             "parameter: adapter; NATS with the IsOpen / empty-frame / Register-error / oversize-after-Register / publish-error / time.After paths and "
             "the status-503 routing of fNatsTransport.handler) (callers, their send "
             "goroutines, the clock and the single reader, cut where they touch shared state), for ALL accepted event sequences - any number "
             "of callers, any interleaving, any arrival sequence (permutations, duplicates, late frames, op ids never issued): a request "
             "completes successfully only with a frame carrying its own op id; frames for unregistered op ids leave the state unchanged; frames "
             "for requests that already left their select change nobody's outcome (bisimulation); a request completes at most once; when all "
             "returned the registry is empty; with distinct op ids, registered iff in flight; every returned frame is one that reached dispatch "
             "(provenance); NATS: a 503 for one op id changes only the channel of the request registered under it, SERVICE_NOT_AVAILABLE is reported "
             "only after a 503 for the request's own op id, a Register error changes nothing else, and with ANY op ids (shared FContexts) a request "
             "in flight owns its registration; the registry's lock discipline is decided on data regenerated from registry.go each build. Tie: a "
             "scheduling harness parks the real goroutines at verif yield points, walks randomly over the events the IMPLEMENTATION offers - on the "
             "adapter (scripted transport) AND on fNatsTransport against an embedded NATS server (responses, duplicates, unknown ids, late frames, "
             "503s from the harness and from the server, discarded messages, empty/oversize/malformed-op-id requests, shared FContexts, publish "
             "errors, closed transport) - and every logged event with its observed effect is replayed on the model inside Coq; plus a direct oracle.",
        note="Trusted: Coq kernel + vm_compute; harness/controller as test equipment; sync.RWMutex and Go channel semantics assumed; distinct op ids from C17. "
             "Embedded NATS server assumed to deliver each message once, in publication order, to the inbox subscription; one callback goroutine per "
             "subscription; the empty frame is encoded as content tag -1 (over-approximation). A schedule that looks hung is re-run alone with 5x wait bounds before it is believed.",
        technique="Coq interleaving model + invariant and bisimulation proofs + controlled-schedule trace validation (yield hooks) on adapter and NATS transports + direct oracle",
        design="5/C01"),
    "C02": dict(
        text="The TBinary and TCompact codecs as the generated Go drives them are Coq specifications (Model/ThriftBin.v, Model/ThriftCompact.v). "
             "Proved for all environments, types and values (26 theorems, no axioms): round trip of generated Write/Read under both protocols "
             "directed by the declared type; the field rules of the generated Write (required and default always, optional iff set, a union "
             "exactly one, declared ids and wire types); rejection of a missing required field and of a multi-field union by Read; unknown "
             "fields skipped exactly (with field-id deltas in step under compact); Skip exactness; zigzag and varint codecs; the compact reader "
             "never panics; the compact encoding is injective and prefix-free. The current UnderlyingType is proved correct whenever typedef targets "
             "of included files name no further include (c02_typedef_resolution_fixed_partial) and refuted for transitive includes (C11-K2 family); "
             "the pinned function's refutation is kept. On every run generated Write and Read of seeded multi-file programs "
             "(generated-code lab: the real frugal compiler, output compiled against the runtime, reflection driver) are replayed on the same Coq "
             "definitions: bytes from generated Write under binary and compact compared byte-exact with the model (up to set/map order); generated "
             "Read fed bytes from independent Python writers (canonical, liberal-but-valid, lying-type, truncated, unknown/missing/duplicated "
             "fields) with value, error class and unread count replayed by Judge/JThriftBin and Judge/JThriftCompact; JSON through a schema-less "
             "reader/writer.",
        note="Trusted: Coq kernel + vm_compute; the TBinary/TCompact models are transcriptions of Apache Thrift v0.19.0 (outside /repo); TJSON has no Coq "
             "specification (differential only); the 100 MB message limit, hostile container sizes and I/O errors other than EOF are not modelled; map keys on the "
             "wire assumed distinct, strings valid UTF-8; harness, reflection driver and Python oracle are test equipment. Known findings: three generator compile "
             "failures; an optional default taken from an init()-assigned constant makes IsSet compare with zero (C02-go-default-from-constant).",
        technique="executable Gallina codec models (binary + compact, pending-bool state threaded), nested-induction proofs, trace-validation judges, generated-code lab",
        design="5/C02"),
    "C03": dict(
        text="20 Coq theorems (no axioms) over an executable model of the generated Go client method, FStandardClient Call/Oneway/processReply, "
             "FBaseProcessor.Process and the generated processor function, generic over the Thrift protocol (a codec record with four round-trip "
             "laws, proved for TBinaryProtocol and for a line-by-line model of TCompactProtocol incl. its message envelope and TApplicationException). "
             "For every environment, method, argument tuple of the declared types and handler outcome the handler is invoked exactly once with "
             "equal arguments and the caller gets exactly the mapped outcome - under both protocols, for inherited methods at any depth and under "
             "op-id dispatch; a oneway method returning nil produces no reply; an unknown method, wrong reply name or wrong reply type is rejected. "
             "Composed with the C01 registry model: for every interleaving of N concurrent calls with pairwise distinct op ids, each caller's "
             "outcome equals that of the same call made alone (= the mapped handler outcome). Tied to the code on every run: lab-generated "
             "clients and processors over in-memory, TCP adapter + simple server, HTTP and NATS x binary/compact/JSON; every observed call is "
             "replayed by the Coq judge, binary and compact at byte level (request and reply that travelled); bursts of concurrent calls through "
             "one client are replayed on the composed model (theorem hypotheses checked on the frames that travelled, conclusion per caller) and "
             "each must observe what it observed alone.",
        note="Trusted: Coq kernel + vm_compute; lab/harness as test equipment. TJSON has no Coq codec; JSON calls are compared at the value level. Reply bytes are "
             "compared by length plus decoded outcome (map/header order). Brokers, sockets and base64 assumed to deliver frames unchanged. Size limits are C12's, "
             "unwritable results C14's. Known findings: Thrift JSON special doubles at a 4096 boundary (third party), Go default-from-constant.",
        technique="Coq model generic over a protocol record + proofs from four codec laws + registry x call composition; vm_compute judges replaying every "
                  "observed call and every burst round; generated-code laboratory over four transports and three protocols",
        design="5/C03"),
    "C04": dict(
        text="Coq theorems over Model/Headers.v (a byte-level transcription of protocol.go's v0 codec and of the Python codec): "
             "layout as documented, stream and frame round trips for every header list and payload with total size < 2^31, "
             "Python/Go agreement. The model is tied to the code on every run by a correspondence check: writers, readers, "
             "addHeadersToFrame and the Python codec are run on seeded maps and the observations are replayed on the model "
             "inside Coq (vm_compute judge); a direct oracle restates the property on the observations alone.",
        note="Trusted: Coq kernel + vm_compute; harness/tools as test equipment; header block < 2^31 bytes; Go map order treated as arbitrary.",
        technique="Coq proof (round-trip by induction) + vm_compute trace-validation judge against the Go/Python codecs",
        design="5/C04"),
    "C05": dict(
        text="Coq theorems: both header parsers, ExecuteFrame and ReadRequestHeader are graceful (value or error, never a Go "
             "slice/makeslice panic, never out of fuel) on EVERY byte string below 2 GiB; each message-oriented receiver loop "
             "(NATS inbox, NATS server worker, NATS/STOMP scope subscriber, HTTP handler) never exits or crashes and judges each "
             "message on its own; the adapter read loop always ends in a closed state, cleanly only between whole frames. The models keep Go's partiality explicit "
             "(Panic results for out-of-range slices), so totality is a real theorem about the bounds checks. Tied to the code by "
             "a correspondence check that feeds boundary-value, exhaustive-small and mutated inputs to every real entry point "
             "(embedded NATS/STOMP brokers, httptest, net.Pipe) and replays them on the model. The Thrift message layer under the header is no longer assumed: "
             "thrift_layer_of = FBaseProcessor.Process after the header over the generated Read through FProtocol on TBinaryProtocol and "
             "TCompactProtocol incl. Skip, proved graceful on EVERY byte string for every environment, processor map and handler with fuel 4n+8 "
             "(no reader can loop or recurse without consuming input; FProtocol's nesting limit 64 and container-size guard are in the model), "
             "and the message receivers and the simple server are instantiated for binary and compact without the gracefulness hypothesis. The framing layer and the HTTP paths are inside the model: bufio.Reader + "
             "TFramedTransport.Read (any state/buffer length: total, progress, frame size never above maxLength), readFrame/readRequestFrame "
             "proved independent of how the connection chunks the stream and equal to the flat reference, the adapter read loop and "
             "FSimpleServer.accept proved to end without crash on every stream/chunking/terminal error (the abstract adapter loop is a proved "
             "refinement); fHTTPTransport's response path (every status/body, base64 transcribed with a round-trip proof) never panics and "
             "accepts exactly well-formed replies; the handler's payload-limit header is total and enforced exactly. Tied by chunked delivery "
             "through net.Pipe/TSocket, a scripted transport, a real TCP FSimpleServer, httptest servers returning arbitrary status/body, and a "
             "differential check of the base64 transcription. 36 theorems, no axioms.",
        note="Trusted: Coq kernel + vm_compute; harness as test equipment; the handler returns values that can be written; TJSONProtocol has no Coq model (hostile JSON bodies under the direct oracle: no crash, no hang, bounded allocation); no stack model (nesting bounded by 64 structs x depth of the declared types); messages < 2^31 bytes; "
             "a connection read returns >=1 byte or an error; net/http and the server-side streaming base64 decoder outside the model (abstract inputs); "
             "encoding/base64 and bufio transcribed from the Go standard library and compared on every run.",
        technique="Coq totality proofs over a Go-partiality model + chunking-independence refinement proofs (chunked -> flat stream) + vm_compute "
                  "trace-validation judge on all receiving entry points and per Read call",
        design="5/C05"),
    "C06": dict(
        text="Coq theorems (no axioms) over the same interleaving model as C01: in EVERY state the single reader has an enabled step (hand over "
             "or drop the frame it looked up, or accept the next frame) with no premise about any caller, so slow, timed-out or abandoned "
             "requests and any number of duplicates cannot stall it; the response of an in-flight request with an empty channel is delivered "
             "and taken regardless of all other requests; a frame is dropped only when its target already holds a frame with the same op id (both transports; NATS: the "
             "idle reader also accepts any status 503; a 503 for a waiting request is delivered and yields SERVICE_NOT_AVAILABLE). The "
             "pinned tree's blocking dispatch is refuted: a reachable state from which, along every continuation, no frame is ever looked up or "
             "delivered again. Tie: as C01, with adversarial schedules (several frames for one op id while its caller is held between result and "
             "unregister); a reader that does not return from the channel send within 1 s, or a fresh request not served within 1 s, is a violation.",
        note="Trusted: as C01. 'Promptly' is enabledness in the theorems; latency is bounded empirically (1 s) by the harness.",
        technique="Coq interleaving model, enabledness theorems, refutation witness for the pinned dispatch, controlled-schedule trace validation",
        design="5/C06"),
    "C07": dict(
        text="12 Coq theorems (no axioms) over interleaving models of the NATS and STOMP subscriber transports, the generated recv<Op> callback and "
             "the publisher frame, for all publish sequences, schedules and worker counts: exact order for one worker; exactly-once multiset for n "
             "workers at quiescence; at-most-once, on-topic-only and intact delivery in every history; bad-message isolation (workers never exit); no "
             "invocation starts for a message published after Unsubscribe; STOMP Unsubscribe can always complete; frame-level intactness composed "
             "from C04 and C02. Tie: every observed experiment (lab-generated publishers/subscribers over embedded NATS and STOMP brokers) is "
             "replayed by the Coq judge with the same step functions, the judge inferring the unobserved internal steps; plus a direct oracle.",
        note="Trusted: Coq kernel + vm_compute; broker = topic-filtered FIFO (checked per experiment by a tap subscription); nats.go/go-stomp client queues as "
             "documented; hypothesis crash_free (no frame makes the callback panic: C05's subject); liveness only as quiescence. NATS Unsubscribe atomic in the model.",
        technique="Coq interleaving model + invariants; trace-validation judge on lab-generated code over embedded brokers; direct oracle",
        design="5/C07"),
    "C08": dict(
        text="Coq theorems (no axioms) over an executable model of the four generators' topic code: the parser's prefix-variable scan, "
             "strings.Title, the emitted op/prefix/topic statements and their evaluation under each target language's rules for string "
             "literals, format calls / interpolation and scoping. For all scope names, operation names, prefixes with 0..n variables, "
             "delimiters and arbitrary runtime values, under explicit decidable side conditions, every publisher and subscriber of Go, "
             "Java, Dart and Python computes exactly prefix[vars:=values]+delim+Title(scope)+delim+op; publisher and subscriber agree "
             "whenever both evaluate, with no side condition. The pinned defects and the former Dart defect (repaired; pinned emission kept as _pinned_refuted; Dart side "
             "condition reduced to no '$') are proved as refuted witnesses. Tied to the code on every run: the real compiler emits all six outputs, the judge checks the emitted statement "
             "text and the evaluated strings (Go's fmt and the compiled generated Go capturing the topic at the transport, javac + "
             "String.format, python3, a Dart interpolation evaluator).",
        note="Trusted: Coq kernel + vm_compute; harness/evaluators as test equipment (no Dart SDK offline). Not modelled: reserved words as "
             "variable names, escape sequences, format verbs other than %s/%%.",
        technique="Coq generator+evaluator model, induction over prefix segments, trace validation against compiler output and compiled generated code",
        design="5/C08"),
    "C09": dict(
        text="Coq theorems (no axioms) over the FContext heap model and the header codec: after a request travelled as bytes, the handler's "
             "context holds exactly the caller's headers (all names but _opid: user headers, correlation id, timeout), a fresh op id, and a "
             "response map carrying the request's op id and correlation id and nothing else, the caller's context untouched; a request without "
             "op id is rejected; after the reply travelled back every response header the handler set (any name but _opid) is on the caller's "
             "context, earlier ones kept, a handler-set _opid cannot displace the caller's; timeouts travel as whole milliseconds; and the two journeys composed "
             "(c09_whole_call over whole_call, the very function the judge runs): for every caller context, handler additions and state, when "
             "the call returns the caller sees under every name but _opid the handler's last value, else the correlation id under _cid, else "
             "what it had, while the handler saw exactly the caller's headers. Tied to the code by replaying seeded calls through the real "
             "FProtocol (WriteRequestHeader / ReadRequestHeader / WriteResponseHeader / ReadResponseHeader over a memory transport) AND whole "
             "calls through a real FBaseProcessor over a bounded output buffer (normal replies and RESPONSE_TOO_LARGE error replies), "
             "comparing all maps of all contexts after every step inside Coq. Partial: transports and generated code are exercised by C03, "
             "not by this check.",
        note="Trusted: Coq kernel + vm_compute; harness as test equipment; header block < 2^31 bytes; FContext methods atomic (C17).",
        technique="Coq heap model + codec round-trip composition + vm_compute trace-validation judge",
        design="5/C09"),
    "C10": dict(
        text="Coq theorems about an executable model of the parser (the pigeon grammar REGENERATED from grammar.peg.go on every build, a "
             "pigeon-semantics interpreter, the 44 semantic actions): termination on every input from a verified well-formedness check; "
             "fuel-independence; Thrift enum numbering over the whole 64-bit range (error exactly when Thrift's numbering leaves it); keywords end at a word "
             "boundary for every continuation (c10_keyword_boundary) and FieldType takes the longest match on every keyword-prefixed name; "
             "identifier, integer, constant-value, field-type and scope-prefix round trips; parse(render m)=m proved end to end for files of "
             "typedef, enum, struct, exception and union (fields with ids, modifiers, nested container types, all separator styles), const "
             "(integer or plain string values) and service (methods with oneway, void or typed return, arguments, throws) declarations in every "
             "blank and line-break style (c10_roundtrip_structs_partial; partial: named types, defaults, other constant kinds, extends, scopes, "
             "includes, comments and annotations rest on correspondence). The full round trip is refuted on the code by one proved witness "
             "(C10-F16); eleven former witnesses are positive theorems after repair. Tied to the real parser on every run in four ways: every generated text and program is parsed by both (trees and "
             "error lists equal); every generated instance of the proved fragment is checked INSIDE Coq to satisfy the theorem's hypotheses "
             "(checker proved sound) and to give, on the real parser, exactly the theorem's tree; a model-free oracle; the -gen json descriptor "
             "as a second view; a structural comparison of grammar.peg with the generated grammar.peg.go (rules, nodes, literals, classes, "
             "action names and code). ParseFrugal on program texts is replayed on Model/ParserFiles.v parse_program, DEFINED from C11's "
             "cvalidate/cparse_program (one transcription of Frugal.validate/parseFrugal; c10_validate_agrees_with_c11, "
             "c10_parse_program_agrees_with_c11); accepted files satisfy the repaired checks (c10_validated_file); ParseFrugal answers tree or "
             "error on every program whose names the grammar can produce (c10_parse_program_checked_total, hypothesis evaluated by the judge "
             "on every case); programs with one injected semantic fault (13 kinds) and 25 fixed invalid declarations must be rejected with "
             "the exact diagnostic by code and model.",
        note="Trusted: Coq kernel + vm_compute; the go/ast translator of the grammar literal (counts re-checked in Coq); hand transcription of the action bodies "
             "and of strconv.Unquote/ParseInt/ParseFloat, strings.*, filepath.Base, two regexps (validated by correspondence, for the fragment also by the "
             "theorem-instance judge); harness as test equipment. Error line/column, syntax-error text and host paths not modelled (validate's diagnostics are compared byte for byte). One parser defect "
             "remains a known finding (C10-F16: line break inside a declaration head); F8a-e, F17-F20, F22, F23 repaired.",
        technique="PEG interpreter model + regenerated grammar + verified wf checker + big-step derivation calculus for round-trip proofs + correspondence "
                  "judge + theorem-instance judge",
        design="5/C10"),
    "C11": dict(
        text="Partial proof, including the whole front end between parse and generation. Coq theorems over ALL parse trees and ALL file systems of "
             "parse results: Frugal.validate and parser.parseFrugal (transcribed with the exact diagnostic texts) return a diagnostic or succeed - no "
             "panic, no fuel exhaustion - with stated fuel bounds (marking loop <= |typedefs|+1 passes, extends walk <= |services|+1 steps, include "
             "recursion <= |files|, UnderlyingType <= typedefs+files). After validation every type reference resolves, every typedef chain "
             "terminates, every extends chain is finite and resolves, every throws type is an exception, field ids/names are distinct, oneway methods "
             "return/throw nothing, identifier constants exist; IsStruct and the Go wire-type classification cannot hit a nil dereference or "
             "unbounded recursion on validated programs; every identifier-casing helper returns on every grammar identifier; -gen parsing is total "
             "and rejects unknown options. Refutation theorems record what was false of the pinned code (F10, F11, F15; dangling/circular extends, "
             "throws of a non-exception, duplicate names - all repaired) and what is still false (names of an include's include: K1-K3, K9-K11; circular constant "
             "references accepted: K15). After validation every constant value and every default value (fields, arguments, declared exceptions) "
             "conforms to its declared type (inductive predicate conforms: typedefs followed in the declaring file, literal kinds with integer "
             "ranges, containers, struct literals by field name, enums by declared number or value name, references to constants of the same "
             "kind; checker proved sound and total with the stated fuel); include cycles are detected by cleaned path and a different file of "
             "a name on the include chain gets a 'Duplicate file name' diagnostic, never 'Circular include' (theorem for all file systems "
             "and chains); with witnesses replayed on the real "
             "compiler. Well-formedness of the eight generators' output and the diagnostic behaviour of the binary on invalid/mutated/arbitrary "
             "text are explored on seeded programs, not proved.",
        note="Model tied to the code by correspondence every run: helpers reached through compiler/**/verif_c11.go; every real Frugal.validate call and "
             "every ParseFrugal result replayed on decoded parser-produced trees (decoder re-encoded and compared), diagnostics compared byte for byte; 167 "
             "named mutations (15 valid-, 152 invalid-by-construction incl. value/type mismatches of every shape, same-named includes, cycles through same-named files) + text mutations; independent Python re-check of the soundness facts on every accepted "
             "tree. Assumes ASCII names and the grammar's naming guarantees (both shown necessary by a refutation theorem); parser termination belongs to "
             "C10. Java syntax only, Dart bracket/quote balance only, Go full type-check against the runtime. Unrepaired generator defects listed in known_findings.json.",
        technique="Coq totality/termination proofs + exact-diagnostic trace validation of the validation pass + judge-checked correspondence + seeded "
                  "compiler exploration with toolchain well-formedness checks",
        design="5/C11"),
    "C12": dict(
        text="16 Coq theorems (axiom-free) over an executable model of the bounded output buffer, the client prepare/Call/Oneway/Publish paths, "
             "the NATS/HTTP/STOMP transport and server size checks and the RESPONSE_TOO_LARGE reply path: rejection iff framed size > limit for "
             "every sequence of transport writes, every limit and every transport/publisher; nothing is transmitted iff rejected; a response over "
             "the server or client limit gives RESPONSE_TOO_LARGE, never a timeout (partial: the op-id-only error reply must itself fit 1 MiB); "
             "every call of a session is judged on its own. Tied to the code on every run by trace validation of real executions through the real "
             "client, embedded nats-server, httptest and go-stomp at limit +-2 bytes, plus a direct oracle.",
        note="Trusted: Coq kernel + vm_compute; harness as test equipment. Messages abstracted to write sizes; TBinary modelled value->writes, compact/JSON "
             "writes taken from a recording transport; Thrift decoding, brokers, net/http, nats.go, go-stomp not modelled; NATS max_payload >= 1 MiB assumed.",
        technique="Coq model + induction over write sequences; trace-validation judge; boundary-directed generation through real transports",
        design="5/C12"),
    "C13": dict(
        text="Partial proof. Coq theorems (no axioms) over the C01 model and the FContext timeout arithmetic: a caller waiting in its select with "
             "a deadline can ALWAYS take the timeout branch, whatever the send goroutine (blocked write or flush), the reader and other callers "
             "do, and that step touches nothing else; the reported outcome is TIMED_OUT exactly when that branch was taken; no registration "
             "is left on ANY exit path of either transport (NATS: not open, empty frame, Register error incl. malformed op id, oversize detected after "
             "Register, publish error, timeout with no deadline flag, 503, result) - also without distinct op ids; NATS outcome classification incl. "
             "SERVICE_NOT_AVAILABLE iff empty frame; a malformed op id registers nothing (defect repaired: 3037cad); every positive timeout is stored as at least one millisecond, hence has a deadline. Wall-clock "
             "punctuality is MEASURED, not proved: Request/Oneway on the adapter, NATS and HTTP transports against silent / late / "
             "write-blocked / flush-blocked peers must return within timeout + 150 ms with TIMED_OUT and an empty registry. Logic tied to the "
             "code by the same controlled-schedule trace validation as C01 (short timeouts, send failures).",
        note="Trusted: Coq kernel + vm_compute; Go timers, scheduler, net/http and nats.go honouring contexts are measured only; NATS PublishRequest is synchronous "
             "(a publish blocked by a full reconnect buffer is outside the model).",
        technique="Coq interleaving model + enabledness/classification theorems + controlled schedules + wall-clock measurement on three transports",
        design="5/C13"),
    "C14": dict(
        text="24 Coq theorems (no axioms): for every service table, handler, error text and request frame whose headers/envelope decode, the modelled "
             "generated processor writes exactly one reply frame (or none for a successful oneway) that an independent reader classifies as "
             "REPLY/EXCEPTION of the tabled kind with the request's op id; at most one whole frame for any input; for every mutex-respecting "
             "schedule of any number of goroutines on one shared framed output the output is a permutation of whole own replies with nothing "
             "pending, and the mutex never wedges; FSimpleServer connection output = concatenation of each request's own reply; NATS/HTTP replies "
             "are a function of the message alone; the lock discipline of processor.go is decided on data REGENERATED from source each build; over BOUNDED "
             "outputs (TMemoryOutputBuffer of any limit, FNatsServer's 1 MiB, HTTP payload limit) the write-by-write model of SendReply/trapError/"
             "sendError/writeException and the unknown-method path leaves exactly the table by sizes - at most one flushed message, always a "
             "well-formed REPLY/EXCEPTION with the request's op id, the normal reply iff it fits, RESPONSE_TOO_LARGE exactly when it does not, an "
             "answer whenever the op-id-only exception fits, nothing (the caller times out) otherwise; the unbounded theorems are the instance "
             "limit=None (refinement proved); C12's size model agrees with the byte model. "
             "Tie: real generated processors (lab) driven through Process, N goroutines on one shared output, FSimpleServer, FNatsServer (embedded "
             "broker, results/headers/error texts over 1 MiB), HTTP handler with payload limits, Process over NewTMemoryOutputBuffer(limit) around "
             "every size involved with every transport call recorded; replies captured byte for byte and replayed by the Coq judge on the same definitions.",
        note="Trusted: Coq kernel + vm_compute; translator/locksites.go; lab/harness as test equipment. Assumed: Go error texts, result serialisation and its "
             "chunking are inputs; the bounded model is of the binary protocol (compact/JSON by oracle only); handlers neither panic nor block; a frame with undecodable headers ends its "
             "FSimpleServer connection (kept behaviour).",
        technique="Coq executable model + interleaving invariants (linearisation by lock order) + regenerated lock-site table + bounded-buffer refinement (size table = operational run) + trace-validation judge + independent oracle",
        design="5/C14"),
    "C15": dict(
        text="19 Coq theorems over an interleaving small-step model of the adapter transport lifecycle, the framing layer and the monitor runner, "
             "for all histories, schedules and policies: exactly one cause per connection generation; every failure point closes the transport with "
             "its classified cause; no call or read loop ever blocks; ALREADY_OPEN/NOT_OPEN consistent; generations independent; attempts and waits "
             "bounded; every close delivered to a live monitor in order; reopen always re-enabled. The pinned code is refuted by witnesses; one "
             "left-in defect (first wait uncapped, F13) is a refuted theorem with a known finding; the former clean-close-on-truncated-frame defect "
             "is repaired (nil cause iff Close() or END_OF_FILE between frames: c15_read_error_inside_frame_never_clean), the pinned classification "
             "kept as a labelled refuted theorem. Tie: step-by-step trace validation of the real fAdapterTransport and monitor "
             "runner (goroutines parked at verif yield hooks) by the Coq judge, plus a direct oracle.",
        note="Trusted: Coq kernel + vm_compute; scripted TTransport harness; close() atomic against the loop's token check; Go mutex/channel semantics; one "
             "monitor set before the first Open. Not modelled: Request/Oneway write and flush failures. Known finding: first reopen wait not capped by "
             "MaxWait (pinned by TestOnClosedUncleanly).",
        technique="interleaving small-step model + invariants, trace-validation judge, scheduled harness with yield hooks, direct oracle",
        design="5/C15"),
    "C16": dict(
        text="13 Coq theorems (no axioms) about an executable model of lib/go/middleware.go, provider.go, processor.go and the generated Go "
             "client/processor/publisher/subscriber wiring (Go slices with backing arrays): for all middleware lists, arguments and heaps each "
             "middleware runs once, nested, later-listed outermost, provider outside constructor, AddMiddleware outermost, the same single nesting "
             "for inherited methods; exact value flow of rewrites across client, wire, server and across publisher, topic, subscriber; arity breaks "
             "panic where Go panics. One statement is refuted with a witness (subscriber keeps the caller's backing array: known finding), its safe "
             "subset proved. Tie: the judge replays every observed trace (entries/exits with values, panics, aliasing) of real generated code "
             "(lab) on the same definitions.",
        note="Trusted: Coq kernel + vm_compute; lab/harness as test equipment. Dynamic-type failures of reflect/type assertions and the codec are outside the model "
             "(values restricted to those measured wire-stable). Known finding: generated subscriber constructors keep the caller's middleware backing array.",
        technique="Coq model + trace-validation judge; generated-code laboratory with tracing/rewriting middleware at every attachment point",
        design="5/C16"),
    "C17": dict(
        text="Coq theorems over an explicit heap model of FContext (every map at its own address, so aliasing is expressible): separation of all "
             "map slots in every reachable state (contexts, clones, maps handed out by getters, protocol objects), frame property of every "
             "operation, key-uniqueness of every map, consecutive op ids from the atomic counter (distinct below 2^64 issues). Tied to context.go / "
             "protocol.go by replaying seeded operation sequences on real FContexts and comparing ALL maps of ALL contexts after EVERY operation "
             "inside Coq; a concurrent stress run supports the atomicity assumption.",
        note="Trusted: Coq kernel + vm_compute; harness as test equipment; atomic.AddUint64 and sync.RWMutex assumed (each FContext method = one atomic model "
             "step; Clone is three critical sections in Go, one step in the model).",
        technique="Coq heap model + invariants by induction over operation sequences + vm_compute trace-validation judge",
        design="5/C17"),
    "C18": dict(
        text="Coq theorems over a function-by-function Gallina model of compiler/parser/audit.go: for every pair of parsed programs the audit fails iff "
             "the declarative catalogue Breaking holds (unconditional when typedefs are acyclic); identical programs and the documented compatible "
             "edits pass; a retyped field, argument, return type or operation is found at any position, depth and typedef/include chain. Tied to the "
             "code every run: the judge replays each generated pair and compares the exact multiset of ERROR/WARNING messages and the verdict; an "
             "oracle derived from the edit labels; the exit status of frugal -audit.",
        note="Trusted: Coq kernel + vm_compute; harness vh_c18 and generators as test equipment (value rendering assumed equal iff reflect.DeepEqual). Parser "
             "outside the model; cyclic typedefs excluded (C11); passing theorems assume distinct names per declaration kind; types compared by name.",
        technique="Gallina model, declarative-catalogue equivalence proof, trace-validation judge, label oracle",
        design="5/C18"),
    "C19": dict(
        text="Partial proof: Coq theorems that every map-iteration site of compiler/** reachable from code generation (list REGENERATED from the source "
             "by go/types on every run) follows a schema whose result is the same for every iteration order; that the generation plan / json "
             "collection order do not depend on map layout; that output directories and the Python __init__ chain do not depend on absolute "
             "locations; that every Compile starts from fresh globals (Reset completeness read off the source). Byte equality of generated text "
             "across repetitions, working directories, source roots and -out directories is established by exploration (sha256 of all emitted "
             "files), and the model is tied to the real parser/compiler by a Coq judge on observed orders, dirs and globals.",
        note="Trusted: translator/mapsites.go (go/types classification, conservative call graph), the list trusted_sorted_libs (encoding/json, yaml.v2, templates "
             "iterate maps sorted), goimports, harness as test equipment. Not modelled: the text generators themselves.",
        technique="Coq model + regenerated map-site table + trace-validation judge + repeated/relocated compilation hashing",
        design="5/C19"),
    "C20": dict(
        text="13 Coq theorems (no axioms) over an interleaving model of fNatsServer plus the nats.go client and broker routing, for every number of "
             "subjects, worker count >= 1, queue length >= 0, burst and position of Stop, on every schedule: conservation; final state when Serve "
             "returns (every accepted request with a reply subject processed exactly once, reply published iff output); nothing accepted after Stop "
             "returned; close(workC) never races a handler; progress (a step is always enabled until both returned; every step decreases a measure; "
             "every maximal schedule ends with both returned). Tie: trace inclusion of real executions against an embedded nats-server by a Coq judge "
             "that only applies the model's step, plus a direct oracle.",
        note="Trusted: Coq kernel + vm_compute; nats.go v1.33.1 / nats-server v2.10.11 behaviour as written into the model's guards (validated per run, not proved); "
             "Go channel semantics; healthy connection; one Stop call; frames >= 4 bytes (C05).",
        technique="interleaving small-step model, inductive invariants, termination measure, trace-inclusion judge with hidden steps",
        design="5/C20"),
}

NOT_YET = "check not built yet in this round; design in DESIGN.md section 5"


# what round 6 of the seeding added to the correspondence of a check (appended to its text)
ROUND6 = {
    "C01": " Round 6: three response frames in four carry user headers that look like the op id header to anything but a walk over the "
           "length-prefixed pairs (a name ending in _opid whose value is a neighbouring op id, a value holding a whole _opid pair).",
    "C06": " Round 6: one caller in seven has a foreign FContext implementation that is held inside its op id read (yield point ctx.opid) "
           "while frames for the other requests arrive; the look-alike headers of C01. Theorem c06_nothing_foreign_under_the_registry_lock over "
           "data regenerated from registry.go on every run (translator/ctxlocks.go, second view of the paths): on every control-flow path of "
           "Register / Unregister / Execute / dispatch, at each call of a method of a caller-supplied value, each function handed one and each "
           "channel send, the mutex is not held (checker proved to mean that: foreign_ok_spec).",
    "C03": " Round 6: every other lab service has a method returning a union, and handlers may return a union with no member set (a reply "
           "abandoned part-way): exactly one well-formed INTERNAL_ERROR reply, handler once, the calls that follow served (direct oracle).",
    "C05": " Round 6: the JSON payloads also announce negative container sizes and 64-bit sizes whose low word is a small int32; a recovered "
           "panic in Process is a failure.",
    "C09": " Round 6: mode hammer - back-to-back invocations of ONE frugal.Method (the reflective layer of every generated client method, "
           "processor function and subscriber callback; 0-3 pass-through middlewares) from 16 goroutines, each with its own FContext: the "
           "handler sees its invocation's context, the caller its handler's result and response header (direct oracle).",
    "C19": " Round 6: every option set that does not stamp the day by design is compiled once more by the compiler built with the verif "
           "tag and told through FRUGAL_VERIF_NOW (hook compiler/globals/verif_now.go) that it is 2031-03-07: same bytes.",
    "C11": " Round 6: generated programs default list / set / map fields to a constant of the file by name.",
    "C12": " Round 6: all HTTP transports of the harness are given one shared map of static request headers (the caller's map).",
    "C13": " Round 6: an HTTP peer that takes the request, stays silent for 3/4 of the timeout and hangs up, every time.",
    "C16": " Round 6: the probes include a (nil, nil) result for every method returning a struct.",
    "C20": " Round 6: in some cases one request is a shutdown request whose handler calls Stop itself (two or more workers).",
}


def main():
    for pid, extra in ROUND6.items():
        CHECKS[pid]["text"] += extra
    hooks_commits = subprocess.run(["git", "-C", "/repo", "log", "--format=%H %s"], capture_output=True,
                                   text=True).stdout.split("\n")
    hook_commits = [l.split()[0] for l in hooks_commits if " verif:" in l or l.split(" ", 1)[-1].startswith("verif")]
    m = {
        "version": 1,
        "setup_cmd": "python3 tools/setup.py",
        "hooks": {
            "guard": "verif",
            "enable": "go build -tags verif (files lib/go/verif_*.go carry //go:build verif; call sites use verifYield which is an empty inlinable function without the tag)",
            "baseline_off_cmd": "for m in $(cat /w/out/gomods.txt); do MF=$(cd /repo/$m && . /w/out/goenv.sh && gomodflag); (cd /repo/$m && go test $MF -json -vet=off -count=1 -timeout 25m ./...); done",
            "source_commits": hook_commits,
            "add_only": True,
        },
        "engines": [
            {"name": "coq", "path": "coq/", "serves_properties": sorted(CHECKS), "kind_free_text": "Coq 8.16.1 models, proofs and vm_compute judges"},
            {"name": "vh", "path": "harness/", "serves_properties": sorted(CHECKS), "kind_free_text": "Go harness driving the real implementation (build tag verif)"},
        ],
        "checks": [],
        "not_applicable": [],
        "notes": "All checks: python3 tools/check.py <id> [--tier quick|thorough] [--replay file]; VERIF_SEED honoured.",
    }
    for pid in ALL:
        if pid in CHECKS:
            c = CHECKS[pid]
            m["checks"].append({
                "property_id": pid,
                "quick_cmd": "python3 tools/check.py %s --tier quick" % pid,
                "thorough_cmd": "python3 tools/check.py %s --tier thorough" % pid,
                "evidence_file": "/verif/evidence/%s.json" % pid,
                "replay_cmd_template": "python3 tools/check.py %s --replay {path}" % pid,
                "engine": "coq",
                "level_claimed": {"category": "proof", "text": c["text"], "design_ref": c["design"]},
                "level_note": c["note"],
                "technique": c["technique"],
            })
        else:
            m["not_applicable"].append({"property_id": pid, "reason": NOT_YET})
    with open(os.path.join(VERIF, "MANIFEST.json"), "w") as fh:
        json.dump(m, fh, indent=1)
    print("wrote MANIFEST.json: %d checks, %d not claimed" % (len(m["checks"]), len(m["not_applicable"])))


if __name__ == "__main__":
    main()
