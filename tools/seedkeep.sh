#!/bin/bash
# usage: seedkeep.sh <seed-dir-name> <PROPERTY> <k> "<verdict text>"   -> /verif/seeded/<PROPERTY>-seed<k>/
[ $# -ge 4 ] && [ -n "$1" ] && [ -f "/tmp/seed/$1/out/patch.diff" ] || { echo "usage: seedkeep.sh <seed-dir-name> <PROPERTY> <k> <verdict>  (and /tmp/seed/<seed-dir-name>/out/patch.diff must exist)"; exit 2; }
id=$1; PID=$2; k=$3; verdict=$4
d=/verif/seeded/$PID-seed$k; mkdir -p $d; cp /tmp/seed/$id/out/patch.diff $d/; rm -rf $d/demo; cp -r /tmp/seed/$id/out/demo $d/
python3 - "$id" "$d" "$verdict" <<'PY'
import json,sys
id,d,verdict=sys.argv[1:4]
m=json.load(open('/tmp/seed/%s/out/meta.json'%id))
m['confirmed_by_coordinator']="tools/seedtest.sh: demo passes on unchanged code; with the patch go build (both modules, also -tags verif) ok, go test ./... ok in root and lib/go, demo fails"
m['check_result']=verdict
json.dump(m,open(d+'/meta.json','w'),indent=1)
PY
git -C /repo worktree remove --force /tmp/seed/$id/repo 2>/dev/null; git -C /repo branch -qD seed-$id 2>/dev/null; rm -rf /tmp/seed/$id
