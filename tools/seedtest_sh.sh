#!/bin/bash
# usage: seedtest_sh.sh <seed-dir-name under /tmp/seed> <PROPERTY>
# As seedtest.sh, for seeded changes whose demonstration is a script demo/run.sh <checkout> (exit 0 = property holds).
set -u
id=$1; PID=$2
export GOFLAGS=-mod=mod GOPROXY=off GOSUMDB=off GOTOOLCHAIN=local GOCACHE=/verif/.cache/gocache
wt=/tmp/seed/$id/repo; out=/tmp/seed/$id/out
cd $wt && git checkout -q -- . && git clean -qfd
git merge -q --ff-only main 2>/dev/null
timeout 900 sh $out/demo/run.sh $wt >/tmp/seed/$id/demo_clean.log 2>&1 && dc=PASS || dc=FAIL
git checkout -q -- . ; git clean -qfd
git apply $out/patch.diff || { echo "SEED $id $PID PATCH-DOES-NOT-APPLY"; exit 1; }
b=$( (cd $wt && go build ./... && cd lib/go && go build ./... && go build -tags verif ./...) 2>&1 | tail -3)
t1=$(cd $wt && timeout 1200 go test -count=1 ./... 2>&1 | grep -v "no test files" | grep -v "^ok" | tail -3)
t2=$(cd $wt/lib/go && timeout 1200 go test -count=1 ./... 2>&1 | grep -v "^ok" | tail -3)
[ -z "$b$t1$t2" ] && ts=ok || ts="FAIL($b $t1 $t2)"
timeout 900 sh $out/demo/run.sh $wt >/tmp/seed/$id/demo_patched.log 2>&1 && dp=PASS || dp=FAIL
cd $wt && git checkout -q -- . && git clean -qfd
git -C /repo apply $out/patch.diff
c=$(cd /verif && timeout 2400 python3 tools/check.py $PID 2>&1 | grep -v "^KNOWN" | tail -3)
git -C /repo checkout -q -- .
echo "$c" | grep -q "VIOLATION" && ck=VIOLATION || ck=MISSED
echo "$c" | grep "VIOLATION" | grep -vq "no-failing-input-found" && kind=concrete || kind=nfi
first=$(ls /verif/replays/$PID-*.json 2>/dev/null | head -1)
what=""
[ -n "$first" ] && what=$(python3 -c "import json,sys;print(json.load(open('$first'))['what'][:200])")
echo "SEED $id $PID demo_clean=$dc tests=$ts demo_patched=$dp check=$ck($kind) :: $what"
grep -m2 -- "--- FAIL\|panic" /tmp/seed/$id/demo_patched.log
