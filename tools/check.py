#!/usr/bin/env python3
"""Driver: python3 tools/check.py Cxx [--tier quick|thorough] [--replay file]"""
import argparse
import importlib
import json
import os
import sys
import traceback

sys.path.insert(0, os.path.dirname(os.path.abspath(__file__)))
import vlib  # noqa: E402


def main():
    ap = argparse.ArgumentParser()
    ap.add_argument("prop")
    ap.add_argument("--tier", default=os.environ.get("VERIF_TIER", "quick"))
    ap.add_argument("--replay")
    ap.add_argument("--keep", action="store_true")
    a = ap.parse_args()
    tier = a.tier if a.tier in ("quick", "thorough") else "quick"
    seed = int(os.environ.get("VERIF_SEED", "20260930") or 0)
    prop = a.prop.upper()
    mod = importlib.import_module("props." + prop.lower())
    ctx = vlib.Ctx(prop, tier, seed)
    try:
        br = vlib.build_all()
        proof = vlib.proof_status(prop, br, ctx.rundir)
        if tier == "thorough" and not proof["problems"]:
            chk = vlib.coqchk_status(prop)
            proof["coqchk"] = {"ok": chk["ok"], "axioms": chk["axioms"]}
            if not chk["ok"]:
                proof["problems"].append("coqchk failed or reports unsafe features / foreign axioms: " + chk["tail"][-600:])
        cov = {}
        run_err = None
        if a.replay:
            rep = json.load(open(a.replay))
            ctx.replaying = rep
        if getattr(br, "hooks_excluded", None):
            ctx.assumptions.append("verif hook files that no longer compile against the edited tree were excluded from the harness build: "
                                   + ", ".join(br.hooks_excluded))
        needs = getattr(mod, "HARNESS_BINS", ["vh"])
        if any(not br.go_bins.get(b, False) for b in needs):
            run_err = "harness (go build -tags verif) no longer builds against the tree:\n" + br.go_log[-3000:]
        if getattr(mod, "NEEDS_FRUGAL", False) and not br.frugal_ok:
            run_err = "the frugal compiler no longer builds:\n" + br.frugal_log[-3000:]
        if run_err is None:
            try:
                cov = mod.run(ctx, br) or {}
            except Exception:  # noqa
                run_err = "check machinery failed:\n" + traceback.format_exc()[-3000:]
        if run_err is not None and not ctx.violations:
            ctx.violation("correspondence could not be established", {
                "no_failing_input_found": True, "broken": "correspondence harness", "detail": run_err})
        if proof["problems"] and not ctx.violations:
            ctx.violation("proof obligations of %s no longer check" % prop, {
                "no_failing_input_found": True, "broken": "theorem", "detail": proof["problems"],
                "coq_log_tail": br.coq_log[-3000:]})
        vlib.write_evidence(ctx, proof, cov)
        rc = vlib.finish(ctx)
        vlib.log("%s %s: %s in %.1fs" % (prop, tier, "OK" if rc == 0 else "VIOLATION", __import__("time").time() - ctx.t0))
        return rc
    finally:
        if not a.keep:
            ctx.cleanup()


if __name__ == "__main__":
    sys.exit(main())
