#!/usr/bin/env python3
"""MANIFEST.setup_cmd: build the framework from files on disk only (offline)."""
import os
import sys

sys.path.insert(0, os.path.dirname(os.path.abspath(__file__)))
import vlib  # noqa: E402

br = vlib.build_all()
ok = br.go_ok and br.coq_ok and br.frugal_ok
if not br.go_ok:
    print(br.go_log[-4000:])
if not br.frugal_ok:
    print(br.frugal_log[-4000:])
if not br.coq_ok:
    print(br.coq_log[-4000:])
# Print Assumptions for every property library, in parallel (cached under the hash of the .vo)
if br.coq_ok:
    import concurrent.futures
    import shutil
    import tempfile

    def pa(prop):
        d = tempfile.mkdtemp(dir=vlib.CACHE)
        try:
            return prop, vlib.proof_status(prop, br, d)["problems"]
        finally:
            shutil.rmtree(d, ignore_errors=True)

    props = ["C%02d" % i for i in range(1, 21)]
    with concurrent.futures.ThreadPoolExecutor(max_workers=10) as ex:
        for prop, problems in ex.map(pa, props):
            if problems:
                print("setup: %s: %s" % (prop, problems[:2]))
print("setup:", "ok" if ok else "FAILED")
sys.exit(0 if ok else 1)
