"""Shared machinery for the frugal verification checks (see DESIGN.md sections 2, 8)."""
import fcntl
import hashlib
import json
import os
import random
import re
import shutil
import subprocess
import sys
import time

VERIF = os.path.dirname(os.path.dirname(os.path.abspath(__file__)))
REPO = os.environ.get("VERIF_REPO", "/repo")
CACHE = os.path.join(VERIF, ".cache")
COQ = os.path.join(VERIF, "coq")
BIN = os.path.join(CACHE, "bin")
GOENV = dict(os.environ, GOFLAGS="-mod=mod", GOPROXY="off", GOSUMDB="off", GOTOOLCHAIN="local",
             GOCACHE=os.environ.get("VERIF_GOCACHE", os.path.join(CACHE, "gocache")), CGO_ENABLED="0")

FORBIDDEN = re.compile(r"\b(Admitted|admit|Axiom|Axioms|Parameter|Parameters|Conjecture|Conjectures|"
                       r"Hypothesis|Variable|Unset\s+Guard|bypass_check|Admit\s+Obligations|"
                       r"native_compute|type-in-type|impredicative-set)\b")
ALLOWED_AXIOMS = {
    "functional_extensionality_dep", "FunctionalExtensionality.functional_extensionality_dep",
    "Eqdep.Eq_rect_eq.eq_rect_eq", "eq_rect_eq", "JMeq_eq", "JMeq.JMeq_eq", "classic",
    "Classical_Prop.classic", "proof_irrelevance", "ProofIrrelevance.proof_irrelevance",
}


def log(*a):
    print("[verif]", *a, file=sys.stderr, flush=True)


def sh(cmd, timeout=1200, cwd=None, env=None, inp=None):
    """Run a command under a timeout; returns (rc, stdout, stderr). rc 124 on timeout."""
    try:
        p = subprocess.run(cmd, cwd=cwd, env=env, input=inp, capture_output=True, timeout=timeout,
                           shell=isinstance(cmd, str))
        return p.returncode, p.stdout.decode("utf8", "replace"), p.stderr.decode("utf8", "replace")
    except subprocess.TimeoutExpired as e:
        out = (e.stdout or b"").decode("utf8", "replace")
        err = (e.stderr or b"").decode("utf8", "replace")
        return 124, out, err + "\nTIMEOUT"


# ----------------------------------------------------------------------------------------------
# builds (under one lock)

class BuildResult:
    def __init__(self):
        self.coq_ok = True
        self.coq_log = ""
        self.coq_failed_files = []
        self.go_ok = True
        self.go_log = ""
        self.frugal_ok = True
        self.frugal_log = ""
        self.gen_log = ""
        self.go_bins = {}
        self.hooks_excluded = []


def _lock():
    os.makedirs(CACHE, exist_ok=True)
    f = open(os.path.join(CACHE, "build.lock"), "w")
    fcntl.flock(f, fcntl.LOCK_EX)
    return f


def repo_tree_hash():
    rc, out, _ = sh(["git", "-C", REPO, "ls-files", "-s"], timeout=60)
    rc2, diff, _ = sh(["git", "-C", REPO, "diff", "HEAD"], timeout=60)
    rc3, untracked, _ = sh(["git", "-C", REPO, "ls-files", "--others", "--exclude-standard"], timeout=60)
    h = hashlib.sha256()
    h.update(out.encode())
    h.update(diff.encode())
    for u in untracked.split("\n"):
        if u:
            h.update(u.encode())
            try:
                with open(os.path.join(REPO, u), "rb") as fh:
                    h.update(fh.read())
            except OSError:
                pass
    return h.hexdigest()


def build_coq(br, jobs=16):
    """Regenerate Gen/*.v (translator, if present), then a full .vo build with make -k."""
    tr = os.path.join(BIN, "translator")
    if os.path.exists(tr):
        rc, out, err = sh([tr, "-repo", REPO, "-out", os.path.join(COQ, "theories", "Gen")], timeout=300)
        br.gen_log = out + err
        if rc != 0:
            br.coq_ok = False
            br.coq_log += "translator failed:\n" + out + err
    rc, out, err = sh([os.path.join(COQ, "gen_project.sh")], timeout=120)
    jobs = int(os.environ.get("VERIF_JOBS", jobs))
    rc, out, err = sh(["make", "-k", "-j%d" % jobs], cwd=COQ, timeout=3000)
    br.coq_log += out + err
    if rc != 0:
        br.coq_ok = False
        br.coq_failed_files = sorted(set(re.findall(r'File "\./(theories/[^"]+\.v)"', out + err)))


HOOK_FILE_RE = re.compile(r"(/[^\s:]*?/verif_\w+\.go):\d+")


def go_build_hooks(args, cwd, timeout=1500):
    """`go build -tags verif ...`; when it fails because a verif_*.go hook file of the tree under test no longer compiles
    (the code it reaches into was edited), build again with that hook file overlaid by an empty one: binaries that
    do not use the broken hook keep working (their checks can still look for a concrete failing input), binaries
    that do use it fail to link and their property reports the broken correspondence.
    Returns (rc, out, err, excluded hook files)."""
    rc, out, err = sh(args, cwd=cwd, env=GOENV, timeout=timeout)
    if rc == 0:
        return rc, out, err, []
    bad = sorted(set(HOOK_FILE_RE.findall(out + err)))
    bad = [f for f in bad if os.path.exists(f)]
    if not bad:
        return rc, out, err, []
    od = os.path.join(CACHE, "overlay")
    os.makedirs(od, exist_ok=True)
    repl = {}
    for f in bad:
        pkg = "main"
        for line in open(f, errors="replace"):
            m = re.match(r"package\s+(\w+)", line)
            if m:
                pkg = m.group(1)
                break
        stub = os.path.join(od, hashlib.sha256(f.encode()).hexdigest()[:16] + ".go")
        open(stub, "w").write("//go:build verif\n\npackage %s\n" % pkg)
        repl[f] = stub
    ov = os.path.join(od, "overlay-%d.json" % os.getpid())
    json.dump({"Replace": repl}, open(ov, "w"))
    a2 = list(args)
    a2[2:2] = ["-overlay", ov]
    rc2, out2, err2 = sh(a2, cwd=cwd, env=GOENV, timeout=timeout)
    if rc2 == 0:
        return 0, out2, "hook files excluded (they no longer compile): %s\n%s" % (", ".join(bad), err), bad
    return rc, out, err, []


def build_go(br):
    os.makedirs(BIN, exist_ok=True)
    h = os.path.join(VERIF, "harness")
    # go.mod from the template (replace directives point at the tree under test);
    # go.sum: union of the repo's module sums (kept current with the tree)
    try:
        mod = open(os.path.join(h, "go.mod.in")).read().replace("@REPO@", REPO)
        cur = open(os.path.join(h, "go.mod")).read() if os.path.exists(os.path.join(h, "go.mod")) else ""
        if mod != cur:
            open(os.path.join(h, "go.mod"), "w").write(mod)
        sums = set()
        for p in (os.path.join(REPO, "go.sum"), os.path.join(REPO, "lib/go/go.sum"),
                  os.path.join(h, "go.sum.extra")):
            if os.path.exists(p):
                sums.update(l for l in open(p).read().split("\n") if l.strip())
        new = "\n".join(sorted(sums)) + "\n"
        cur = open(os.path.join(h, "go.sum")).read() if os.path.exists(os.path.join(h, "go.sum")) else ""
        if new != cur:
            open(os.path.join(h, "go.sum"), "w").write(new)
    except OSError as e:
        br.go_log += "go.mod/go.sum: %s\n" % e
    # one binary per directory under harness/cmd, built separately so that one broken
    # harness does not take the others down
    br.go_bins = {}
    br.hooks_excluded = []
    cmds = sorted(d for d in os.listdir(os.path.join(h, "cmd")) if os.path.isdir(os.path.join(h, "cmd", d)))
    for c in cmds:
        rc, out, err, excl = go_build_hooks(["go", "build", "-tags", "verif", "-o", os.path.join(BIN, c), "./cmd/" + c], h)
        br.go_bins[c] = (rc == 0)
        for f in excl:
            if f not in br.hooks_excluded:
                br.hooks_excluded.append(f)
        if rc != 0:
            br.go_log += "== cmd/%s ==\n%s%s\n" % (c, out, err)
            try:
                os.remove(os.path.join(BIN, c))
            except OSError:
                pass
    br.go_ok = all(br.go_bins.values())
    rc, out, err = sh(["go", "build", "-o", os.path.join(BIN, "frugal"), "."], cwd=REPO, env=GOENV, timeout=900)
    br.frugal_log = out + err
    br.frugal_ok = rc == 0
    # the same compiler with the verif tag (compiler/globals/verif_now.go: the clock reading as an input); best effort
    rc2, _, _ = sh(["go", "build", "-tags", "verif", "-o", os.path.join(BIN, "frugal_verif"), "."], cwd=REPO, env=GOENV, timeout=900)
    if rc2 != 0:
        try:
            os.remove(os.path.join(BIN, "frugal_verif"))
        except OSError:
            pass
    t = os.path.join(VERIF, "translator")
    if os.path.isdir(t):
        rc, out, err = sh(["go", "build", "-o", os.path.join(BIN, "translator"), "."], cwd=t, env=GOENV, timeout=600)
        if rc != 0:
            br.go_log += "translator build failed:\n" + out + err


def build_all(need_go=True, need_coq=True):
    """Build everything the checks need from the current /repo tree, once per tree state."""
    lk = _lock()
    try:
        br = BuildResult()
        stamp = os.path.join(CACHE, "build.stamp.json")
        key = repo_tree_hash() + ":" + verif_src_hash()
        if os.path.exists(stamp):
            try:
                st = json.load(open(stamp))
                if st.get("key") == key and time.time() - st.get("t", 0) < 3600 and \
                        os.path.exists(os.path.join(BIN, "vh")):
                    br.__dict__.update(st["br"])
                    return br
            except (ValueError, KeyError):
                pass
        if need_go:
            build_go(br)
        if need_coq:
            build_coq(br)
        json.dump({"key": key, "t": time.time(), "br": br.__dict__}, open(stamp, "w"))
        return br
    finally:
        lk.close()


def verif_src_hash():
    h = hashlib.sha256()
    for root in ("coq/theories", "harness", "translator"):
        base = os.path.join(VERIF, root)
        for dp, dn, fn in os.walk(base):
            dn.sort()
            if "/Gen" in dp or "/lab/gen" in dp:
                continue
            for f in sorted(fn):
                if f.endswith((".v", ".go", ".mod")):
                    p = os.path.join(dp, f)
                    h.update(p.encode())
                    h.update(open(p, "rb").read())
    return h.hexdigest()


# ----------------------------------------------------------------------------------------------
# proof status of one property

def theorem_names(prop):
    p = os.path.join(COQ, "theories", "Props", prop + ".v")
    if not os.path.exists(p):
        return []
    return re.findall(r"^\s*Theorem\s+(\w+)", open(p).read(), re.M)


def proof_status(prop, br, rundir, extra_files=()):
    """Returns dict(obligations, discharged, problems[list of str], axioms{thm: [..]})."""
    names = theorem_names(prop)
    problems = []
    vo = os.path.join(COQ, "theories", "Props", prop + ".vo")
    src = os.path.join(COQ, "theories", "Props", prop + ".v")
    res = {"obligations": len(names), "discharged": 0, "problems": problems, "axioms": {}, "theorems": names}
    if not names:
        problems.append("no theorems in Props/%s.v" % prop)
        return res
    # forbidden words anywhere in the development
    for dp, dn, fn in os.walk(os.path.join(COQ, "theories")):
        for f in fn:
            if f.endswith(".v"):
                txt = open(os.path.join(dp, f)).read()
                txt = re.sub(r"\(\*.*?\*\)", "", txt, flags=re.S)
                for m in FORBIDDEN.finditer(txt):
                    # Variable/Hypothesis are allowed inside a Section only
                    if m.group(1) in ("Variable", "Hypothesis") and _inside_sections_only(txt):
                        continue
                    problems.append("forbidden vernacular %r in %s" % (m.group(0), os.path.join(dp, f)))
                    break
    stale = False
    if not getattr(br, "coq_ok", True) and os.path.exists(vo):
        # some file failed to compile: an older Props/Cxx.vo may still lie there; ask make whether it is up to date
        # with respect to ALL its dependencies (regenerated Gen/*.v included)
        rc_q, _, _ = sh(["make", "-q", "theories/Props/%s.vo" % prop], cwd=COQ, timeout=300)
        stale = rc_q != 0
    if stale or not os.path.exists(vo) or os.path.getmtime(vo) < os.path.getmtime(src):
        problems.append("Props/%s.vo not built (proof or dependency failed)" % prop)
        failed = [f for f in br.coq_failed_files]
        if failed:
            problems.append("failed files: " + ", ".join(failed))
        return res
    # Print Assumptions walks every proof term the theorems depend on (tens of seconds for the larger
    # developments); its result is a function of the compiled library, which embeds the checksums of all
    # its dependencies, so it is cached under the sha256 of Props/Cxx.vo
    vo_hash = hashlib.sha256(open(vo, "rb").read()).hexdigest()
    os.makedirs(os.path.join(CACHE, "pa_cache"), exist_ok=True)
    cache_file = os.path.join(CACHE, "pa_cache", prop + ".json")
    try:
        hit = json.load(open(cache_file))
    except (OSError, ValueError):
        hit = None
    if hit and hit.get("vo") == vo_hash and hit.get("names") == names:
        res["axioms"] = hit["axioms"]
        res["discharged"] = hit["discharged"]
        problems.extend(hit["pa_problems"])
        return res
    n_before = len(problems)
    pa = os.path.join(rundir, "PA_%s.v" % prop)
    with open(pa, "w") as fh:
        fh.write("From FV Require Import Props.%s.\n" % prop)
        for n in names:
            fh.write('Print Assumptions %s.\n' % n)
    rc, out, err = sh(["coqc", "-Q", os.path.join(COQ, "theories"), "FV", pa], timeout=600, cwd=rundir)
    if rc != 0:
        problems.append("Print Assumptions run failed: " + (out + err)[-2000:])
        return res
    blocks = re.split(r"(?=Closed under the global context|Axioms:)", out)
    blocks = [b for b in blocks if b.strip()]
    if len(blocks) != len(names):
        problems.append("could not match Print Assumptions output to theorems")
        return res
    for n, b in zip(names, blocks):
        if b.startswith("Closed under"):
            res["axioms"][n] = []
            res["discharged"] += 1
        else:
            ax = re.findall(r"^([\w.']+)\s*:", b, re.M)
            res["axioms"][n] = ax
            bad = [a for a in ax if a not in ALLOWED_AXIOMS and a.split(".")[-1] not in ALLOWED_AXIOMS]
            if bad:
                problems.append("theorem %s depends on non-stdlib axioms %s" % (n, bad))
            else:
                res["discharged"] += 1
    try:
        entry = {"vo": vo_hash, "names": names, "axioms": res["axioms"], "discharged": res["discharged"],
                 "pa_problems": problems[n_before:]}
        with open(cache_file + ".tmp%d" % os.getpid(), "w") as fh:
            json.dump(entry, fh)
        os.replace(cache_file + ".tmp%d" % os.getpid(), cache_file)
    except OSError:
        pass
    return res


def coqchk_status(prop, timeout=3000):
    """Thorough tier: re-check the compiled library of the property (and everything it depends on) with the
    independent checker; returns dict(ok, axioms, tail)."""
    rc, out, err = sh("coqchk -silent -o -Q theories FV FV.Props.%s" % prop, cwd=COQ, timeout=timeout)
    txt = out + err
    ax = []
    m = re.search(r"\* Axioms:(.*?)\n\s*\n\* Constants", txt, re.S)
    if m:
        ax = [a.strip() for a in m.group(1).split("\n") if a.strip() and a.strip() != "<none>"]
    bad = [a for a in ax if a not in ALLOWED_AXIOMS and a.split(".")[-1] not in ALLOWED_AXIOMS]
    flags = re.findall(r"\* (Constants/Inductives relying on type-in-type|Constants/Inductives relying on unsafe \(co\)fixpoints|"
                       r"Inductives whose positivity is assumed): (.*)", txt)
    unsafe = [f for f in flags if f[1].strip() != "<none>"]
    return {"ok": rc == 0 and not bad and not unsafe, "rc": rc, "axioms": ax, "unsafe": unsafe, "tail": txt[-1500:]}


def _inside_sections_only(txt):
    depth = 0
    for line in txt.split("\n"):
        s = line.strip()
        if re.match(r"Section\s+\w+", s):
            depth += 1
        elif re.match(r"End\s+\w+", s) and depth > 0:
            depth -= 1
        elif re.match(r"(Variable|Variables|Hypothesis|Hypotheses)\b", s) and depth == 0:
            return False
    return True


# ----------------------------------------------------------------------------------------------
# case data -> Coq

def _tok(o, out):
    if isinstance(o, bool):
        out.extend((0, 1 if o else 0))
    elif isinstance(o, int):
        if o >= 0:
            assert o < (1 << 62), o
            out.extend((0, o))
        else:
            assert -o < (1 << 62), o
            out.extend((1, -o))
    elif isinstance(o, (bytes, bytearray)):
        out.extend((2, len(o)))
        for i in range(0, len(o), 7):
            out.append(int.from_bytes(bytes(o[i:i + 7]).ljust(7, b"\0"), "big"))
    elif isinstance(o, (list, tuple)):
        out.extend((3, len(o)))
        for x in o:
            _tok(x, out)
    else:
        raise TypeError(type(o))


def encode_tokens(cases):
    out = []
    for c in cases:
        _tok(c, out)
    return out


MAX_ARR = 4000000


def run_judge(rundir, module, fn, cases, shard=None, timeout=1500, name="j"):
    """Evaluate `fn` (list tok -> list Z) from FV.Judge.<module> on the cases inside Coq.
    Returns list of ints (one per case) or raises RuntimeError with the coqc output."""
    if not cases:
        return []
    results = []
    # shard by token volume
    shards, cur, cur_n = [], [], 0
    limit = shard or 1500000
    for c in cases:
        t = []
        _tok(c, t)
        if cur and cur_n + len(t) > limit:
            shards.append(cur)
            cur, cur_n = [], 0
        cur.append(t)
        cur_n += len(t)
    if cur:
        shards.append(cur)
    def one(arg):
        si, sh_cases = arg
        d = os.path.join(rundir, "%s%d" % (name, si))
        os.makedirs(d, exist_ok=True)
        flat = [x for t in sh_cases for x in t]
        assert len(flat) < MAX_ARR
        with open(os.path.join(d, "Data.v"), "w") as fh:
            fh.write("From Coq Require Import Uint63 PArray.\nOpen Scope uint63_scope.\n")
            fh.write("Definition data : array int := [| ")
            fh.write("; ".join(map(str, flat)))
            fh.write(" | 0 |].\n")
        with open(os.path.join(d, "Run.v"), "w") as fh:
            fh.write("From Coq Require Import ZArith List.\nFrom FV Require Import Judge.Wire Judge.%s.\n" % module)
            fh.write("Require Import Data.\nImport ListNotations.\nOpen Scope Z_scope.\n")
            fh.write("Set Printing Depth 100000000.\nSet Printing Width 200.\n")
            fh.write("Definition M := Eval vm_compute in %s (decode data).\nPrint M.\n" % fn)
        q = ["-Q", os.path.join(COQ, "theories"), "FV", "-Q", ".", '""']
        rc, out, err = sh("ulimit -s unlimited 2>/dev/null; coqc %s Data.v && coqc %s Run.v" %
                          (" ".join(q), " ".join(q)), cwd=d, timeout=timeout)
        if rc != 0:
            raise RuntimeError("judge coqc failed (rc %d): %s" % (rc, (out + err)[-3000:]))
        m = re.search(r"M\s*=\s*(.*?)\n\s*:\s*list Z", out, re.S)
        if not m:
            raise RuntimeError("cannot parse judge output: " + out[-2000:])
        vals = [int(x) for x in re.findall(r"-?\d+", m.group(1).replace("%Z", ""))]
        if len(vals) != len(sh_cases):
            raise RuntimeError("judge returned %d results for %d cases" % (len(vals), len(sh_cases)))
        return vals

    # shards are independent coqc runs: several at a time (each holds its data array and the result in memory)
    workers = max(1, min(len(shards), int(os.environ.get("VERIF_JOBS", "6"))))
    if workers == 1:
        parts = [one(a) for a in enumerate(shards)]
    else:
        from concurrent.futures import ThreadPoolExecutor
        with ThreadPoolExecutor(max_workers=workers) as ex:
            parts = list(ex.map(one, enumerate(shards)))
    for vals in parts:
        results.extend(vals)
    return results


# ----------------------------------------------------------------------------------------------
# run context, evidence, verdicts

class Ctx:
    def __init__(self, prop, tier, seed):
        self.prop = prop
        self.tier = tier
        self.seed = seed
        self.rng = random.Random(seed * 1000003 + int(hashlib.sha256(prop.encode()).hexdigest()[:8], 16))
        self.t0 = time.time()
        self.rundir = os.path.join(CACHE, "run", "%s-%d" % (prop, os.getpid()))
        shutil.rmtree(self.rundir, ignore_errors=True)
        os.makedirs(self.rundir)
        self.violations = []      # dicts {what, replay(obj)}
        self.known = []
        self.cov = {}
        self.assumptions = []
        self.known_findings = load_known(prop)

    def cleanup(self):
        shutil.rmtree(self.rundir, ignore_errors=True)

    def violation(self, what, replay, signature=None):
        """Record a violation unless it matches a known finding."""
        for kf in self.known_findings:
            if signature is not None and kf.get("signature") == signature:
                if kf not in self.known:
                    self.known.append(kf)
                return
        self.violations.append({"what": what, "replay": replay, "signature": signature})


def load_known(prop):
    p = os.path.join(VERIF, "known_findings.json")
    if not os.path.exists(p):
        return []
    d = json.load(open(p))
    return [f for f in d.get("findings", []) if f.get("property") == prop]


def write_evidence(ctx, proof, coverage_extra, level="proof"):
    os.makedirs(os.path.join(VERIF, "evidence"), exist_ok=True)
    cov = {
        "obligations": proof["obligations"],
        "discharged": proof["discharged"],
        "checker_cmd": "make -C /verif/coq (coqc 8.16.1, full .vo) + coqc Print Assumptions for every theorem of Props/%s.v" % ctx.prop,
        "trusted_base": [
            "Coq 8.16.1 kernel and vm_compute (no native_compute)",
            "axioms under the theorems: " + (", ".join(sorted({a for v in proof["axioms"].values() for a in v})) or "none (closed under the global context)"),
            "correspondence harness (Go, build tag verif) and tools/*.py as test equipment",
        ],
        "theorems": proof.get("theorems", []),
        "proof_problems": proof["problems"],
    }
    if "coqchk" in proof:
        cov["coqchk"] = proof["coqchk"]
        cov["trusted_base"].append("coqchk -silent -o on FV.Props.%s: %s; axioms: %s" % (
            ctx.prop, "ok" if proof["coqchk"]["ok"] else "FAILED", ", ".join(proof["coqchk"]["axioms"]) or "none"))
    cov.update(coverage_extra)
    ev = {
        "property_id": ctx.prop,
        "tier": ctx.tier,
        "seed": ctx.seed,
        "level": level,
        "coverage": cov,
        "assumptions": ctx.assumptions,
        "wall_s": round(time.time() - ctx.t0, 2),
        "violations": len(ctx.violations),
        "known_findings_hit": [k.get("id") for k in ctx.known],
    }
    p = os.path.join(VERIF, "evidence", ctx.prop + ".json")
    with open(p + ".tmp", "w") as fh:
        json.dump(ev, fh, indent=1, sort_keys=True)
    os.replace(p + ".tmp", p)


def finish(ctx):
    """Print KNOWN-FINDING / VIOLATION lines, write replays, return exit code."""
    for k in ctx.known:
        print("KNOWN-FINDING: property=%s %s" % (ctx.prop, k.get("what", k.get("id"))))
    os.makedirs(os.path.join(VERIF, "replays"), exist_ok=True)
    for old in os.listdir(os.path.join(VERIF, "replays")):
        if old.startswith(ctx.prop + "-"):
            try:
                os.remove(os.path.join(VERIF, "replays", old))
            except OSError:
                pass
    if not ctx.violations:
        return 0
    seen = 0
    for i, v in enumerate(ctx.violations[:20]):
        path = os.path.join(VERIF, "replays", "%s-%d-%d.json" % (ctx.prop, ctx.seed, i))
        with open(path, "w") as fh:
            json.dump({"property": ctx.prop, "what": v["what"], "replay": v["replay"],
                       "seed": ctx.seed, "tier": ctx.tier}, fh, indent=1)
        tail = " no-failing-input-found" if v["replay"].get("no_failing_input_found") else ""
        print("VIOLATION property=%s replay=%s%s" % (ctx.prop, path, tail))
        seen += 1
    return 1


def hexs(b):
    return bytes(b).hex()
