#!/usr/bin/env python3
"""Runs the repository's Python header codec (lib/python/frugal/util/headers.py) on JSON-line
requests: {"op":"write","pairs":[[hexk,hexv],..]} | {"op":"read"|"decode_frame","bytes":hex}."""
import importlib.util
import io
import json
import logging
import sys
import types

repo = sys.argv[1] if len(sys.argv) > 1 else "/repo"

# minimal stand-in for thrift.protocol.TProtocol.TProtocolException (the thrift wheel is absent)
thrift = types.ModuleType("thrift")
protocol = types.ModuleType("thrift.protocol")
tproto = types.ModuleType("thrift.protocol.TProtocol")


class TProtocolException(Exception):
    UNKNOWN, INVALID_DATA, NEGATIVE_SIZE, SIZE_LIMIT, BAD_VERSION = 0, 1, 2, 3, 4

    def __init__(self, type=0, message=None):
        Exception.__init__(self, message)
        self.type = type


tproto.TProtocolException = TProtocolException
sys.modules["thrift"] = thrift
sys.modules["thrift.protocol"] = protocol
sys.modules["thrift.protocol.TProtocol"] = tproto
logging.disable(logging.CRITICAL)

spec = importlib.util.spec_from_file_location("fheaders", repo + "/lib/python/frugal/util/headers.py")
mod = importlib.util.module_from_spec(spec)
spec.loader.exec_module(mod)
H = mod._Headers


def classify(e):
    if isinstance(e, TProtocolException):
        return {TProtocolException.INVALID_DATA: 4, TProtocolException.BAD_VERSION: 5}.get(e.type, 7)
    return 7


def smap(d):
    items = sorted((k.encode("utf8"), v.encode("utf8")) for k, v in d.items())
    return [[k.hex(), v.hex()] for k, v in items]


for line in sys.stdin:
    line = line.strip()
    if not line:
        continue
    q = json.loads(line)
    try:
        if q["op"] == "write":
            d = {}
            for k, v in q["pairs"]:
                d[bytes.fromhex(k).decode("utf8")] = bytes.fromhex(v).decode("utf8")
            out = H._write_to_bytearray(d)
            r = {"code": 0, "out": bytes(out).hex(),
                 "order": [[k.encode("utf8").hex(), v.encode("utf8").hex()] for k, v in d.items()]}
        elif q["op"] == "read":
            b = io.BytesIO(bytes.fromhex(q["bytes"]))
            d = H._read(b)
            r = {"code": 0, "map": smap(d), "rest": b.read().hex()}
        elif q["op"] == "decode_frame":
            d = H.decode_from_frame(bytes.fromhex(q["bytes"]))
            r = {"code": 0, "map": smap(d), "rest": ""}
        else:
            r = {"code": 7, "msg": "unknown op"}
    except Exception as e:  # noqa
        r = {"code": classify(e), "msg": "%s: %s" % (type(e).__name__, e)}
    sys.stdout.write(json.dumps(r) + "\n")
