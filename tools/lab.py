"""The generated-code laboratory (DESIGN.md 2.4): IDL program -> frugal -gen go -> one driver binary.

API
    lab = Lab(program, lab_id=None, gen_opts="", extra_imports=())
        program        a program model from tools/lab_idl.py (or any dict with "id", "root", "files", "order")
        lab_id         directory name under harness/lab/gen/ (default: program["id"]); must be unique among
                       concurrently running checks (use e.g. "c02_<seed>_<n>")
        gen_opts       extra -gen go options, e.g. "slim" (package_prefix is always set)
        extra_imports  Go import paths blank-imported into the driver's main, e.g. "verifharness/lab/ext_c03";
                       such packages add ops with labdriver.RegisterOp in an init()
    lab.build()        writes IDL under harness/lab/gen/<id>/idl, runs .cache/bin/frugal -r -gen
                       go:package_prefix=verifharness/lab/gen/<id>/ into harness/lab/gen/<id>/, writes
                       handler stubs (zz_lab_stubs.go, next to each generated service), the constructor
                       registry (reg/registry.go) and cmd/main.go, and links .cache/lab/<id>/driver.
                       Raises LabError(stage, log) with stage "frugal" (compiler rejected or crashed),
                       "go" (emitted code or glue does not compile).  Returns self.
    lab.run(reqs, timeout=600)   -> list of responses (one per request; the process is restarted after a
                       request that kills it, that request gets {"code": 100, "panic": "process died ..."})
    lab.struct_key(file, go_name) -> registry key "<pkg>.<GoName>"
    lab.struct_keys()  -> {key: (file, structdef)} for every declared struct/union/exception and every
                       args/result struct (structdef of those as lab_idl.method_structs builds them)
    lab.remove()       deletes harness/lab/gen/<id> and the binary
    Requests / responses and the JSON form of values: see harness/lab/driver/driver.go (ops types, new, write,
    read, isset, tree, echo).  lab_idl.to_wire / from_wire convert model values.

The harness module (harness/go.mod) must exist: vlib.build_all() creates it (tools/check.py always does).
"""
import json
import os
import re
import shutil

import lab_idl
import vlib

HARNESS = os.path.join(vlib.VERIF, "harness")
GEN = os.path.join(HARNESS, "lab", "gen")


class LabError(Exception):
    def __init__(self, stage, log):
        Exception.__init__(self, "%s: %s" % (stage, log[-2000:]))
        self.stage = stage
        self.log = log


class Lab:
    def __init__(self, program, lab_id=None, gen_opts="", extra_imports=()):
        self.program = program
        self.id = lab_id or program["id"]
        assert re.match(r"^[a-z][a-z0-9_]*$", self.id), self.id
        self.gen_opts = gen_opts
        self.extra_imports = list(extra_imports)
        self.dir = os.path.join(GEN, self.id)
        self.bin = os.path.join(vlib.CACHE, "lab", self.id, "driver")
        self.prefix = "verifharness/lab/gen/%s/" % self.id
        self.frugal_log = ""

    # ---------------------------------------------------------------------------------------
    def build(self, idl_texts=None):
        shutil.rmtree(self.dir, ignore_errors=True)
        os.makedirs(os.path.join(self.dir, "idl"))
        texts = idl_texts or lab_idl.render(self.program)
        for fn, txt in texts.items():
            with open(os.path.join(self.dir, "idl", fn), "w") as fh:
                fh.write(txt)
        opts = "package_prefix=" + self.prefix + ("," + self.gen_opts if self.gen_opts else "")
        rc, out, err = vlib.sh([os.path.join(vlib.BIN, "frugal"), "-r", "-gen", "go:" + opts, "-out", self.dir,
                                self.program["root"] + ".frugal"], cwd=os.path.join(self.dir, "idl"), timeout=120)
        self.frugal_log = out + err
        if rc != 0:
            raise LabError("frugal", "rc=%d\n%s" % (rc, out + err))
        self._write_glue()
        os.makedirs(os.path.dirname(self.bin), exist_ok=True)
        rc, out, err, _excl = vlib.go_build_hooks(["go", "build", "-tags", "verif", "-o", self.bin, "./lab/gen/%s/cmd" % self.id],
                                                  HARNESS, timeout=900)
        if rc != 0:
            raise LabError("go", out + err)
        return self

    def remove(self):
        shutil.rmtree(self.dir, ignore_errors=True)
        shutil.rmtree(os.path.dirname(self.bin), ignore_errors=True)

    # ---------------------------------------------------------------------------------------
    def _packages(self):
        return sorted(d for d in os.listdir(self.dir)
                      if os.path.isdir(os.path.join(self.dir, d)) and d not in ("idl", "reg", "cmd"))

    def _write_glue(self):
        slim = "slim" in self.gen_opts.split(",")
        reg_lines, imports = [], []
        for pkg in self._packages():
            pdir = os.path.join(self.dir, pkg)
            src = ""
            for f in sorted(os.listdir(pdir)):
                if f.endswith(".go") and not f.startswith("zz_lab"):
                    src += open(os.path.join(pdir, f)).read() + "\n"
            imports.append(pkg)
            metas = self._field_metas(pkg) if slim else {}
            for m in re.finditer(r"^func New(\w+)\(\) \*(\w+) \{", src, re.M):
                if m.group(1) != m.group(2):
                    continue
                extra = ""
                if m.group(1) in metas:
                    extra = ", " + ", ".join('labdriver.FieldMeta{ID: %d, GoName: "%s"}' % x for x in metas[m.group(1)])
                reg_lines.append('\tr.Struct("%s.%s", func() labdriver.TStruct { return %s.New%s() }%s)' %
                                 (pkg, m.group(1), pkg, m.group(1), extra))
            # services: interface blocks give the exact Go signatures for the handler stubs
            stubs = []
            for m in re.finditer(r"^type F(\w+) interface \{\n(.*?)^\}", src, re.M | re.S):
                svc, body = m.group(1), m.group(2)
                if not re.search(r"^func NewF%sClient\(" % svc, src, re.M):
                    continue
                embedded, methods = None, []
                for line in body.split("\n"):
                    line = line.strip()
                    if not line or line.startswith("//"):
                        continue
                    mm = re.match(r"^(\w+)\(fctx frugal\.FContext(.*?)\) \((?:r (.+), )?err error\)$", line)
                    if mm:
                        params = [p.strip().split(" ", 1) for p in mm.group(2).split(", ") if p.strip()]
                        methods.append((mm.group(1), params, mm.group(3)))
                        continue
                    em = re.match(r"^(?:(\w+)\.)?F(\w+)$", line)
                    if em:
                        embedded = (em.group(1), em.group(2))
                        continue
                    raise LabError("glue", "cannot parse interface line %r of F%s" % (line, svc))
                stubs.append((svc, embedded, methods))
                reg_lines.append('\tr.Service("%s.%s", labdriver.ServiceEntry{NewClient: %s.NewF%sClient, '
                                 'NewProcessor: func(h labdriver.HandlerFunc, mw ...frugal.ServiceMiddleware) frugal.FProcessor '
                                 '{ s := &%s.LabStub%s{}; s.LabH = h; return %s.NewF%sProcessor(s, mw...) }, Methods: []string{%s}})' %
                                 (pkg, svc, pkg, svc, pkg, svc, pkg, svc, ", ".join('"%s"' % x[0] for x in methods)))
            if stubs:
                self._write_stubs(pkg, pdir, stubs)
            for m in re.finditer(r"^func New(\w+)Publisher\(provider \*frugal\.FScopeProvider", src, re.M):
                sc = m.group(1)
                reg_lines.append('\tr.Scope("%s.%s", labdriver.ScopeEntry{NewPublisher: %s.New%sPublisher, NewSubscriber: %s.New%sSubscriber})' %
                                 (pkg, sc, pkg, sc, pkg, sc))
        os.makedirs(os.path.join(self.dir, "reg"))
        with open(os.path.join(self.dir, "reg", "registry.go"), "w") as fh:
            fh.write("// generated by tools/lab.py\npackage reg\n\nimport (\n\tfrugal \"github.com/Workiva/frugal/lib/go\"\n"
                     "\tlabdriver \"verifharness/lab/driver\"\n")
            for pkg in imports:
                fh.write('\t%s "%s%s"\n' % (pkg, self.prefix, pkg))
            fh.write(")\n\nvar _ frugal.FContext\n\nfunc Register(r *labdriver.Registry) {\n")
            fh.write("\n".join(reg_lines))
            fh.write("\n}\n")
        os.makedirs(os.path.join(self.dir, "cmd"))
        with open(os.path.join(self.dir, "cmd", "main.go"), "w") as fh:
            fh.write("// generated by tools/lab.py\npackage main\n\nimport (\n\tlabdriver \"verifharness/lab/driver\"\n"
                     "\t\"%sreg\"\n" % self.prefix)
            for imp in self.extra_imports:
                fh.write('\t_ "%s"\n' % imp)
            fh.write(")\n\nfunc main() {\n\tr := labdriver.NewRegistry()\n\treg.Register(r)\n\tlabdriver.Main(r)\n}\n")

    def _write_stubs(self, pkg, pdir, stubs):
        """LabStub<Service>: implements F<Service>, forwards every call to a labdriver.HandlerFunc."""
        need = set()
        L = []
        for svc, embedded, methods in stubs:
            if embedded:
                epkg, esvc = embedded
                if epkg:
                    need.add(epkg)
                L.append("type LabStub%s struct {\n\t%sLabStub%s\n}\n" % (svc, (epkg + ".") if epkg else "", esvc))
            else:
                L.append("type LabStub%s struct {\n\tLabH labdriver.HandlerFunc\n}\n" % svc)
            for name, params, ret in methods:
                sig = "".join(", %s %s" % (p[0], p[1]) for p in params)
                for q in re.findall(r"\b(\w+)\.\w", " ".join(p[1] for p in params) + " " + (ret or "")):
                    if q != "frugal":
                        need.add(q)
                rets = "(r %s, err error)" % ret if ret else "(err error)"
                L.append("func (s *LabStub%s) %s(fctx frugal.FContext%s) %s {" % (svc, name, sig, rets))
                L.append('\tout, e := s.LabH("%s.%s", "%s", fctx, []interface{}{%s})' %
                         (pkg, svc, name, ", ".join(p[0] for p in params)))
                if ret:
                    L.append("\tif out != nil {\n\t\tr = out.(%s)\n\t}\n\treturn r, e\n}\n" % ret)
                else:
                    L.append("\t_ = out\n\treturn e\n}\n")
        with open(os.path.join(pdir, "zz_lab_stubs.go"), "w") as fh:
            fh.write("// generated by tools/lab.py\npackage %s\n\nimport (\n\tfrugal \"github.com/Workiva/frugal/lib/go\"\n"
                     "\tlabdriver \"verifharness/lab/driver\"\n" % pkg)
            for p in sorted(need):
                fh.write('\t%s "%s%s"\n' % (p, self.prefix, p))
            fh.write(")\n\nvar _ labdriver.HandlerFunc\nvar _ frugal.FContext\n\n" + "\n".join(L))

    def _field_metas(self, pkg):
        """Go field names by struct (used for slim output, which has no struct tags)."""
        out = {}
        f = self.program["files"].get(pkg)
        if not f:
            return out
        for s in f["structs"]:
            if s.get("synthetic"):
                continue
            out[lab_idl.go_struct_name(s["name"])] = [(x["id"], lab_idl.title(x["name"])) for x in s["fields"]]
        for svc in f["services"]:
            for ms in lab_idl.method_structs(self.program, pkg, svc["name"]):
                out[ms["go_name"]] = [(x["id"], lab_idl.title(x["name"])) for x in ms["fields"]]
        return out

    # ---------------------------------------------------------------------------------------
    def struct_key(self, file, go_name):
        return "%s.%s" % (lab_idl.go_pkg(file), go_name)

    def struct_keys(self):
        out = {}
        for fn in self.program["order"]:
            f = self.program["files"][fn]
            for s in f["structs"]:
                if s.get("synthetic"):
                    continue
                out[self.struct_key(fn, lab_idl.go_struct_name(s["name"]))] = (fn, s)
            for svc in f["services"]:
                for ms in lab_idl.method_structs(self.program, fn, svc["name"]):
                    out[self.struct_key(fn, ms["go_name"])] = (fn, ms)
        return out

    def run(self, reqs, timeout=600):
        resps = []
        pending = list(reqs)
        guard = 0
        while pending and guard < 50:
            guard += 1
            inp = ("\n".join(json.dumps(r) for r in pending) + "\n").encode()
            rc, out, err = vlib.sh([self.bin], inp=inp, timeout=timeout)
            got = []
            for line in out.split("\n"):
                if line.strip():
                    try:
                        got.append(json.loads(line))
                    except ValueError:
                        got.append({"code": 103, "err": "unparsable driver output: " + line[:200]})
            resps.extend(got[:len(pending)])
            if len(got) >= len(pending):
                break
            resps.append({"code": 100, "panic": "process died: " + err[-600:]})
            pending = pending[len(got) + 1:]
        return resps


if __name__ == "__main__":
    # smoke test: python3 tools/lab.py <seed> [size] [gen_opts]
    import random
    import sys
    seed = int(sys.argv[1]) if len(sys.argv) > 1 else 1
    size = sys.argv[2] if len(sys.argv) > 2 else "small"
    rng = random.Random(seed)
    prog = lab_idl.gen_program(rng, "smoke%d" % seed, size)
    lab = Lab(prog, gen_opts=sys.argv[3] if len(sys.argv) > 3 else "")
    try:
        lab.build()
    except LabError as e:
        print("BUILD FAILED at", e.stage)
        print(e.log[-3000:])
        sys.exit(1)
    keys = lab.struct_keys()
    t = lab.run([{"op": "types"}])[0]
    missing = sorted(set(keys) - set(t["structs"]))
    print("structs", len(t["structs"]), "services", len(t["services"]), "scopes", len(t["scopes"]), "missing", missing)
    reqs, meta = [], []
    for k, (fn, s) in sorted(keys.items()):
        for _ in range(5):
            v = lab_idl.gen_struct_value(rng, prog, s)
            reqs.append({"op": "echo", "type": k, "proto": rng.choice(["binary", "compact", "json"]),
                         "value": lab_idl.struct_to_wire(prog, s, v)})
            meta.append((k, s, v))
    bad = 0
    for (k, s, v), r in zip(meta, lab.run(reqs)):
        if r.get("code") != 0:
            bad += 1
            if bad < 5:
                print("ECHO", k, r)
    print("echo requests", len(reqs), "non-zero codes", bad)
    lab.remove()
